"""C04 — time-triggered and sequential validation agree on instantaneous plans.

P-bounded (real source executed symbolically, labelled bounded: ONE action instance with TWO effects): TimeTriggeredPlanValidator._apply_effects
-- the place where the time-triggered validator merges the effects that happen at one instant -- against the pairwise transition
specification of the sequential semantics (the one `_evaluate_effect` is proved against in C01): for two effects of one instance on fully
symbolic ground fluents (equal or different), the values handed to make_child and the raising of UPConflictingEffectsException are exactly
those of the sequential semantics: two assignments of one value are accepted, two different values conflict unless the fluent is Boolean
(then it ends true), assignment mixed with increase / decrease conflicts, increases and decreases accumulate on the pre-state value, writes
to different fluents are independent.  `_apply_effect` (grounding + evaluation of one effect) is used by contract.

B: on the C01 problem family (instantaneous actions only, no timed effects/goals, initial state satisfies the
invariants and bounds) every plan up to the length bound is scheduled at pairwise distinct rational times
(several schedules per plan, including ones that reorder the instances): TimeTriggeredPlanValidator must
return VALID iff SequentialPlanValidator does on the instances in start-time order.  A crafted family adds numeric fluents whose type has a
single bound (lower or upper, 0 or not, int and real) with plans that leave the range only in the middle.
"""
import itertools
import random
import warnings
from fractions import Fraction
from rtc import seqcheck as SC
from spec import seqsem

USES_THEORY = True


def _fluent_exps(e):
    out, stack = set(), [e]
    while stack:
        x = stack.pop()
        if x.is_fluent_exp():
            out.add(x)
        stack.extend(x.args)
    return out


def signature(pr, plan):
    # a fluent WITHOUT initial value read only inside a sub-expression that simplification removes (`false and q`, `0 * n`): the sequential
    # simulator simplifies while grounding and never reads it, the time-triggered validator evaluates the expression as written and fails on it
    try:
        em = pr.environment.expression_manager
        for a, ps in plan:
            subs = dict(zip([em.ParameterExp(p_) for p_ in a.parameters], [em.ObjectExp(o) for o in ps]))
            exprs = list(a.preconditions)
            for e in a.effects:
                exprs += [e.value, e.condition]
            for x in exprs:
                g = x.substitute(subs)
                gone = _fluent_exps(g) - _fluent_exps(g.simplify())
                if any(pr.initial_value(f) is None for f in gone if not f.args or all(arg.is_object_exp() for arg in f.args)):
                    return "undefined-fluent-read-only-in-a-subexpression-that-simplifies-away"
    except Exception:  # noqa
        pass
    # two unconditional assignments of one action whose targets are different lifted expressions but the SAME ground fluent for the actual parameters
    # (m(x0) := m(x1) and m(o0) := n in a1(o0, o0)): the sequential simulator rejects the ground action statically (known C01/C03 finding), the
    # time-triggered validator compares the values in the state
    try:
        em = pr.environment.expression_manager
        for a, ps in plan:
            subs = dict(zip([em.ParameterExp(p_) for p_ in a.parameters], [em.ObjectExp(o) for o in ps]))
            tg = [(e.fluent, e.fluent.substitute(subs), e.value.substitute(subs)) for e in a.effects if e.is_assignment()]
            for i_ in range(len(tg)):
                for j_ in range(i_ + 1, len(tg)):
                    if tg[i_][0] is not tg[j_][0] and tg[i_][1] is tg[j_][1] and tg[i_][2] is not tg[j_][2]:
                        return "two-assignments-reach-one-ground-fluent-through-parameter-aliasing"
    except Exception:  # noqa
        pass
    for a, ps in plan:
        for e in a.effects:
            t = e.fluent.fluent().type
            if (t.is_int_type() or t.is_real_type()) and (t.lower_bound is not None or t.upper_bound is not None):
                return "plan-writes-a-bounded-numeric-fluent"
    return "unclassified"


def crafted_half_bounded():
    """numeric fluents whose type has a single bound (0 or another value; int and real; lower or upper): an excursion outside the range in the
    middle of the plan, with the goal true again at the end, must be rejected by both validators"""
    from unified_planning.shortcuts import Problem, Fluent, InstantaneousAction, IntType, RealType, Equals, Plus, Minus
    out = []
    for nm, ty, init in (("int_lb0", IntType(0, None), 0), ("int_ub0", IntType(None, 0), 0), ("real_lb0", RealType(Fraction(0), None), Fraction(0)),
                         ("real_ub0", RealType(None, Fraction(0)), Fraction(0)), ("int_lb1", IntType(1, None), 1), ("int_ub2", IntType(None, 2), 2),
                         ("real_lbm1", RealType(Fraction(-1), None), Fraction(-1))):
        pr = Problem("half_bounded_" + nm)
        n = Fluent("n", ty)
        pr.add_fluent(n, default_initial_value=init)
        up_, down = InstantaneousAction("inc"), InstantaneousAction("dec")
        if nm.endswith("ub0"):          # the step itself must be a value of the fluent's type: -1 for (-inf, 0]
            up_.add_decrease_effect(n, -1)
            down.add_increase_effect(n, -1)
        else:
            up_.add_increase_effect(n, 1)
            down.add_decrease_effect(n, 1)
        pr.add_action(up_)
        pr.add_action(down)
        pr.add_goal(Equals(n, init))
        out.append((9100000 + len(out), pr))
    return out


def crafted_permuted_parameters():
    """two actions with the SAME body over like-named parameters declared in different orders (go(src, dst) / back(dst, src)): their
    conditions and effects are the very same hash-consed expressions, only the binding of actual to formal parameters differs"""
    from unified_planning.shortcuts import Problem, Fluent, InstantaneousAction, UserType, Object, BoolType, IntType, Not, GE
    out = []
    for numeric in (False, True):
        pr = Problem("permuted_parameters" + ("_numeric" if numeric else ""))
        L = UserType("Location")
        ls = [Object(f"l{i}", L) for i in (1, 2, 3)]
        pr.add_objects(ls)
        at = Fluent("at", BoolType(), l=L)
        pr.add_fluent(at, default_initial_value=False)
        pr.set_initial_value(at(ls[0]), True)
        load = Fluent("load", IntType(0, 5), l=L)
        if numeric:
            pr.add_fluent(load, default_initial_value=1)

        def body(a):
            src, dst = a.parameter("src"), a.parameter("dst")
            a.add_precondition(at(src))
            a.add_precondition(Not(at(dst)))
            a.add_effect(at(src), False)
            a.add_effect(at(dst), True)
            if numeric:
                a.add_precondition(GE(load(src), 1))
                a.add_decrease_effect(load(src), 1)
                a.add_increase_effect(load(dst), 1)
        go = InstantaneousAction("go", src=L, dst=L)
        back = InstantaneousAction("back", dst=L, src=L)
        body(go)
        body(back)
        pr.add_action(go)
        pr.add_action(back)
        pr.add_goal(at(ls[0]))
        out.append((9200000 + len(out), pr))
    return out


def crafted_forall_accumulation():
    """a quantified increase / decrease whose instances all reach the same ground fluent (the target does not mention the quantified variable)
    next to a condition on the accumulated value: the two validators must agree on how often the amount is applied"""
    from unified_planning.shortcuts import Problem, Fluent, InstantaneousAction, UserType, Object, Variable, IntType, BoolType, Equals, GE
    out = []
    for decrease in (False, True):
        for goalv in ((3, 2, 1) if not decrease else (7, 8, 9)):
            T_ = UserType("T4a")
            pr = Problem(f"forall_accumulation_{'dec' if decrease else 'inc'}_{goalv}")
            o1, o2 = Object("o1", T_), Object("o2", T_)
            pr.add_objects([o1, o2])
            total, w, done = Fluent("total", IntType(0, 20)), Fluent("w", IntType(0, 5), x=T_), Fluent("done", BoolType())
            pr.add_fluent(total, default_initial_value=10 if decrease else 0)
            pr.add_fluent(w, default_initial_value=0)
            pr.add_fluent(done, default_initial_value=False)
            pr.set_initial_value(w(o1), 1)
            pr.set_initial_value(w(o2), 2)
            v = Variable("v", T_)
            a = InstantaneousAction("sumup")
            (a.add_decrease_effect if decrease else a.add_increase_effect)(total, w(v), forall=[v])
            fin = InstantaneousAction("finish")
            fin.add_precondition(Equals(total, goalv))
            fin.add_effect(done, True)
            pr.add_action(a)
            pr.add_action(fin)
            pr.add_goal(done)
            out.append((9300000 + len(out), pr))
    return out


def crafted_forall_assignment():
    """a quantified ASSIGNMENT whose instances all reach the same ground fluent with values read from the state (flag := p(v) for every v; n := w(v) for
    every v): Boolean instances follow add-after-delete, differing numeric values are a conflict -- in both validators alike"""
    from unified_planning.shortcuts import Problem, Fluent, InstantaneousAction, UserType, Object, Variable, IntType, BoolType, Not, Equals
    out = []
    for vals in ((True, False), (False, True), (False, False), (True, True)):
        for goal_true in (True, False):
            T_ = UserType("T4b")
            pr = Problem(f"forall_assignment_bool_{vals}_{goal_true}")
            o1, o2 = Object("o1", T_), Object("o2", T_)
            pr.add_objects([o1, o2])
            p_, flag = Fluent("p", BoolType(), x=T_), Fluent("flag", BoolType())
            pr.add_fluent(p_, default_initial_value=False)
            pr.add_fluent(flag, default_initial_value=False)
            pr.set_initial_value(p_(o1), vals[0])
            pr.set_initial_value(p_(o2), vals[1])
            v = Variable("v", T_)
            a = InstantaneousAction("copyall")
            a.add_effect(flag, p_(v), forall=[v])
            pr.add_action(a)
            pr.add_goal(flag if goal_true else Not(flag))
            out.append((9500000 + len(out), pr))
    for ws in ((1, 2), (2, 1), (2, 2)):
        for goalv in (1, 2):
            T_ = UserType("T4c")
            pr = Problem(f"forall_assignment_int_{ws}_{goalv}")
            o1, o2 = Object("o1", T_), Object("o2", T_)
            pr.add_objects([o1, o2])
            w, n = Fluent("w", IntType(0, 5), x=T_), Fluent("n", IntType(0, 5))
            pr.add_fluent(w, default_initial_value=0)
            pr.add_fluent(n, default_initial_value=0)
            pr.set_initial_value(w(o1), ws[0])
            pr.set_initial_value(w(o2), ws[1])
            v = Variable("v", T_)
            a = InstantaneousAction("copyall")
            a.add_effect(n, w(v), forall=[v])
            pr.add_action(a)
            pr.add_goal(Equals(n, goalv))
            out.append((9500000 + len(out), pr))
    return out


def crafted_guarded_division():
    """an effect value that divides by a fluent, next to a precondition of the same action that excludes the value zero; the divisor is zero
    initially and another action makes it positive"""
    from unified_planning.shortcuts import Problem, Fluent, InstantaneousAction, RealType, BoolType, GT, Div
    pr = Problem("guarded_division")
    x, y, done = Fluent("x", RealType()), Fluent("y", RealType()), Fluent("done", BoolType())
    pr.add_fluent(x, default_initial_value=4)
    pr.add_fluent(y, default_initial_value=0)
    pr.add_fluent(done, default_initial_value=False)
    a = InstantaneousAction("divide")
    a.add_precondition(GT(y, 0))
    a.add_effect(x, Div(x, y))
    a.add_effect(done, True)
    b = InstantaneousAction("raise_y")
    b.add_effect(y, 2)
    pr.add_action(a)
    pr.add_action(b)
    pr.add_goal(done)
    return [(9400000, pr)]


def bounded(tier, seed):
    from unified_planning.engines.plan_validator import SequentialPlanValidator, TimeTriggeredPlanValidator
    from unified_planning.engines.results import ValidationResultStatus
    from unified_planning.plans import SequentialPlan, TimeTriggeredPlan, ActionInstance
    nprob, maxlen, cap, nsched = (50, 2, 40, 2) if tier == "quick" else (400, 3, 100, 3)
    failures, evals, nontrivial, samples = [], 0, set(), []
    for s, pr in itertools.chain(crafted_half_bounded(), crafted_permuted_parameters(), crafted_forall_accumulation(), crafted_forall_assignment(), crafted_guarded_division(), SC.problems(seed + 29, nprob, features={"max_actions": 2})):
        if not SequentialPlanValidator.supports(pr.kind) or not TimeTriggeredPlanValidator.supports(pr.kind):
            continue
        gas = seqsem.ground_actions(pr)
        rng = random.Random(s)
        plans = []
        for L in range(1, maxlen + 1):
            allp = list(itertools.product(gas, repeat=L))
            if len(allp) > cap:
                allp = rng.sample(allp, cap)
            plans += allp
        with warnings.catch_warnings():
            warnings.simplefilter("ignore")
            sv = SequentialPlanValidator(environment=pr.environment)
            tv = TimeTriggeredPlanValidator(environment=pr.environment)
        for plan in plans:
            for k in range(nsched):
                times = rng.sample([Fraction(i, 4) for i in range(0, 40)], len(plan))
                order = sorted(range(len(plan)), key=lambda i: times[i])
                seqplan = [plan[i] for i in order]
                evals += 1
                desc = {"problem": str(pr), "timed_plan": [f"{times[i]}: {plan[i][0].name}({','.join(o.name for o in plan[i][1])})" for i in range(len(plan))]}
                with warnings.catch_warnings():
                    warnings.simplefilter("ignore")
                    try:
                        rs = sv.validate(pr, SequentialPlan([ActionInstance(a, tuple(ps)) for a, ps in seqplan]))
                        try:
                            rt = tv.validate(pr, TimeTriggeredPlan([(times[i], ActionInstance(plan[i][0], tuple(plan[i][1])), None) for i in range(len(plan))]))
                        except ZeroDivisionError as e2:
                            # the sequential validator reached a verdict on this plan; the time-triggered one could not even evaluate it
                            what = (f"seed {s}: sequential says {rs.status.name}, time-triggered raised ZeroDivisionError "
                                    f"[{'effect-value-undefined-where-a-condition-of-the-same-action-is-false' if rs.status != ValidationResultStatus.VALID else signature(pr, plan)}]")
                            if what not in {f_["what"] for f_ in failures}:      # one report per problem and tag: the cap below is for distinct failures
                                failures.append({"what": what, "concrete": desc, "observed": repr(e2)})
                            break
                    except Exception as e:  # noqa
                        failures.append({"what": f"seed {s}: a validator raised {type(e).__name__}: {e} [{signature(pr, plan)}]",
                                         "concrete": desc, "observed": repr(e)})
                        break
                vs, vt = rs.status == ValidationResultStatus.VALID, rt.status == ValidationResultStatus.VALID
                if vs:
                    nontrivial.add((s, tuple(desc["timed_plan"])))
                if vs != vt:
                    failures.append({"what": f"seed {s}: sequential says {rs.status.name}, time-triggered says {rt.status.name} [{signature(pr, plan)}]",
                                     "concrete": desc, "observed": [rs.status.name, rt.status.name]})
                    break
                if len(samples) < 3 and vs:
                    samples.append({"problem": pr.name, "timed_plan": desc["timed_plan"], "both": "VALID"})
            if len(failures) >= 5:
                break
        if len(failures) >= 5:
            break
    return {"evaluations": evals, "distinct_nontrivial": len(nontrivial), "failures": failures,
            "rule": f"7 crafted problems over numeric types with a single bound (0 and non-0, int and real) + 2 crafted problems with like-named parameters in permuted order (go(src,dst) / back(dst,src)) + {nprob} generated problems, plans <= {maxlen} (sampled above {cap}), {nsched} schedules with pairwise "
                    f"distinct rational start times each; non-trivial = distinct timed plan that is VALID",
            "samples": samples, "bound": f"plans <= {maxlen}, {nsched} schedules"}


LEVEL = "other"
EXPLANATION = __doc__


# ======================================================================================================= bounded symbolic kernel
import z3
from pyvc.values import Ref, Seq, Map, Set, SBool, SRef, SUnion, SSeq, SMap, SSet, Rec, CList, CDict, Loc, ExcVal, fresh_name, zbool, Unsupported
from pyvc.values import Bool as PBool
from pyvc.verify import Unit
from pyvc import builtins as B
from contracts import theory as T
from contracts.theory import OK, OKT, node_type
import unified_planning.engines.plan_validator as _pv
from unified_planning.model.effect import EffectKind as _EK
from unified_planning.exceptions import UPConflictingEffectsException as _Conflict

_F = T.FNode.z3sort()
State04, SE04, AI04, Problem04 = Ref("State04"), Ref("StateEvaluator04"), Ref("ActionInstance04"), Ref("Problem04")
_pb = B._uf("FNode.payload.BOOL_CONSTANT", _F, z3.BoolSort())
_pi = B._uf("FNode.payload.INT_CONSTANT", _F, z3.IntSort())
_pr = B._uf("FNode.payload.REAL_CONSTANT", _F, z3.RealSort())
GROUND = z3.Function("ground_fluent_of_effect", T.Effect.z3sort(), _F)      # the ground fluent an effect writes (arguments evaluated in the pre-state)
AMOUNT = z3.Function("effect_value_in_pre_state", T.Effect.z3sort(), _F)    # the effect's value evaluated in the pre-state (a constant)
FIRES = z3.Function("effect_condition_holds_in_pre_state", T.Effect.z3sort(), z3.BoolSort())
PRE = z3.Function("pre_state_value", _F, _F)
MKNUM = z3.Function("constant_of", z3.RealSort(), _F)


def is_num(x):
    return z3.Or(node_type(x) == OKT.consts[OK.INT_CONSTANT], node_type(x) == OKT.consts[OK.REAL_CONSTANT])


def numval(x):
    return z3.If(node_type(x) == OKT.consts[OK.INT_CONSTANT], z3.ToReal(_pi(x)), _pr(x))


def _kind(e):
    return B._uf("Effect._kind", T.Effect.z3sort(), T.EKT.z3sort())(e)


def _apply_effect_contract(eng, st, args, kw):
    """contract of _apply_effect: {} when the condition is false, else {ground fluent: new value}; an increase / decrease is computed on
    the value already in `updates`, else on the pre-state value"""
    selfv, state, se, ai, eff, updates, problem = args
    upd = eng.deref(st, updates)
    e = eff.z
    for s, fires in eng.branch(st, FIRES(e), "fires"):
        if not fires:
            yield s, s.alloc(CDict({}), "dict")
            continue
        g = GROUND(e)
        EK = T.EKT.consts
        if isinstance(upd, SMap):
            has, val = z3.Select(upd.has, g), z3.Select(upd.val, g)
        elif isinstance(upd, CDict):
            has = z3.Or([k.z == g for k in upd.items]) if upd.items else z3.BoolVal(False)
            val = PRE(g)
            for k, v in upd.items.items():
                val = z3.If(k.z == g, eng.deref(s, v).z, val)
        else:
            has, val = z3.BoolVal(False), PRE(g)
        base = z3.If(has, val, PRE(g))
        amount = AMOUNT(e)
        newval = z3.If(_kind(e) == EK[_EK.INCREASE], numval(base) + numval(amount), numval(base) - numval(amount))
        newnum = MKNUM(newval)
        s.assume(is_num(newnum), numval(newnum) == newval)
        v = z3.If(_kind(e) == EK[_EK.ASSIGN], amount, newnum)
        yield s, s.alloc(CDict({T.FNode.wrap(g): T.FNode.wrap(v)}), "dict")


class ApplyEffectsPair(Unit):
    prop = "C04"
    name = "TimeTriggeredPlanValidator._apply_effects (one instance, two effects)"
    doc = "the merge of two effects of one action instance is the pairwise transition specification of the sequential semantics"
    allowed_raises = (_Conflict,)
    bounded_by_construction = True      # two effects of one instance: a bounded symbolic check, reported as such in the evidence

    def target(self):
        return _pv.TimeTriggeredPlanValidator._apply_effects

    def configure(self, eng):
        eng.axioms += T.semantic_axioms((OK.BOOL_CONSTANT, OK.INT_CONSTANT, OK.REAL_CONSTANT, OK.OBJECT_EXP))
        eng.contracts[_pv.TimeTriggeredPlanValidator._apply_effect] = _apply_effect_contract
        x = z3.Real("x!mk")
        a, b = z3.Const("a!c04", _F), z3.Const("b!c04", _F)
        C = OKT.consts
        MKB = z3.Function("bool_constant_of", z3.BoolSort(), _F)
        _po = B._uf("FNode.payload.OBJECT_EXP", _F, T.Object.z3sort())
        MKO = z3.Function("object_expression_of", T.Object.z3sort(), _F)
        eng.axioms += [  # (facts about constant_of(x) are assumed where the contract of _apply_effect creates such a term: a global axiom would
                       #  feed the canonical-constant axioms below and instantiate for ever)
                       # canonical constants (hash-consing + numeric normalisation, C16): a constant node is determined by its value
                       z3.ForAll([a], z3.Implies(node_type(a) == C[OK.INT_CONSTANT], a == MKNUM(z3.ToReal(_pi(a)))), patterns=[_pi(a)]),
                       z3.ForAll([a], z3.Implies(node_type(a) == C[OK.REAL_CONSTANT], a == MKNUM(_pr(a))), patterns=[_pr(a)]),
                       z3.ForAll([a], z3.Implies(node_type(a) == C[OK.BOOL_CONSTANT], a == MKB(_pb(a))), patterns=[_pb(a)]),
                       z3.ForAll([a], z3.Implies(node_type(a) == C[OK.OBJECT_EXP], a == MKO(_po(a))), patterns=[_po(a)])]

        def make_child(eng_, st, selfv, args, kw):
            st.ghost["child_updates"] = eng_.deref(st, kw.get("updated_values", args[0] if args else None))
            yield st, State04.fresh("child")
        State04.methods["make_child"] = make_child

    def setup(self, eng, st):
        w = st.alloc(Rec(_pv.TimeTriggeredPlanValidator, {}), "validator")
        e1, e2 = T.Effect.fresh("e1"), T.Effect.fresh("e2")
        ai = AI04.fresh("ai")
        EK = T.EKT.consts
        for e in (e1, e2):
            k = _kind(e.z)
            st.assume(z3.Or([k == EK[x] for x in (_EK.ASSIGN, _EK.INCREASE, _EK.DECREASE)]))
            g = GROUND(e.z)
            gbool = B._uf("Type.is_bool_type()", T.Type.z3sort(), z3.BoolSort())(B._uf("FNode.type", _F, T.Type.z3sort())(g))
            isb = node_type(AMOUNT(e.z)) == OKT.consts[OK.BOOL_CONSTANT]
            # C23: values have the fluent's type class; increase / decrease are numeric
            st.assume(gbool == isb, z3.Implies(k != EK[_EK.ASSIGN], z3.And(is_num(AMOUNT(e.z)), is_num(PRE(g)), z3.Not(gbool))),
                      z3.Or(isb, is_num(AMOUNT(e.z)), node_type(AMOUNT(e.z)) == OKT.consts[OK.OBJECT_EXP]))
        effs = st.alloc(CList([e1, e2]), "list")
        groups = st.alloc(CList([(effs, None, ai)]), "list")
        return [w, State04.fresh("state"), SE04.fresh("se"), groups, Problem04.fresh("problem")], {}, dict(e1=e1, e2=e2)

    def post(self, eng, ctx, st, out):
        e1, e2 = ctx["e1"].z, ctx["e2"].z
        EK = T.EKT.consts
        g1, g2 = GROUND(e1), GROUND(e2)
        f1, f2 = FIRES(e1), FIRES(e2)
        a1, a2 = _kind(e1) == EK[_EK.ASSIGN], _kind(e2) == EK[_EK.ASSIGN]
        v1 = AMOUNT(e1)
        isbool = node_type(v1) == OKT.consts[OK.BOOL_CONSTANT]
        same = z3.And(f1, f2, g1 == g2)
        v2 = AMOUNT(e2)
        conflict = z3.And(same, z3.Or(z3.And(a1, a2, v1 != v2, z3.Not(isbool)), a1 != a2))
        if out[0] == "raise":
            st.oblige("UPConflictingEffectsException only for a conflict of the sequential semantics", conflict)
            return
        st.oblige("a conflict of the sequential semantics is rejected", z3.Not(conflict))
        upd = st.ghost.get("child_updates")
        if upd is None:
            st.oblige("the successor is built by make_child", z3.BoolVal(False))
            return

        def lookup(g):
            if isinstance(upd, SMap):
                return z3.Select(upd.has, g), z3.Select(upd.val, g)
            if isinstance(upd, CDict):
                has = z3.Or([k.z == g for k in upd.items]) if upd.items else z3.BoolVal(False)
                val = PRE(g)
                for k, v in upd.items.items():
                    val = z3.If(k.z == g, eng.deref(st, v).z, val)
                return has, val
            if isinstance(upd, B.PendingEmpty):
                return z3.BoolVal(False), PRE(g)
            raise Unsupported(f"updates {upd!r}")

        def inc(e, base):
            return z3.If(_kind(e) == EK[_EK.INCREASE], numval(base) + numval(AMOUNT(e)), numval(base) - numval(AMOUNT(e)))
        h1, w1 = lookup(g1)
        h2, w2 = lookup(g2)
        # effect 1's fluent
        st.oblige("a fluent is written iff an effect on it fires", z3.And(h1 == z3.Or(f1, z3.And(f2, g1 == g2)), h2 == z3.Or(f2, z3.And(f1, g1 == g2))))
        st.oblige("only e1 writes its fluent: assigned value / pre-state value +- amount",
                  z3.Implies(z3.And(f1, z3.Not(same)), z3.If(a1, w1 == v1, z3.And(is_num(w1), numval(w1) == inc(e1, PRE(g1))))))
        st.oblige("only e2 writes its fluent: assigned value / pre-state value +- amount",
                  z3.Implies(z3.And(f2, z3.Not(same)), z3.If(a2, w2 == v2, z3.And(is_num(w2), numval(w2) == inc(e2, PRE(g2))))))
        st.oblige("two assignments of one fluent: the common value, or true for a Boolean assigned both values",
                  z3.Implies(z3.And(same, a1, a2), z3.If(v1 == v2, w1 == v1, z3.And(node_type(w1) == OKT.consts[OK.BOOL_CONSTANT], _pb(w1)))))
        st.oblige("two increases / decreases of one fluent accumulate on the pre-state value",
                  z3.Implies(z3.And(same, z3.Not(a1), z3.Not(a2)),
                             z3.And(is_num(w1), numval(w1) == z3.If(_kind(e2) == EK[_EK.INCREASE], inc(e1, PRE(g1)) + numval(v2), inc(e1, PRE(g1)) - numval(v2)))))


UNITS = [ApplyEffectsPair()]
TRUSTED = ["_apply_effect is used by an ASSUMED contract that models an effect with ONE instance (one ground target): the expansion of a quantified effect into several instances "
           "reaching the same ground fluent is outside it -- the two defects repaired in 4d47c69 / 1d5a99b lived exactly there and were found by the bounded families "
           "crafted_forall_accumulation / crafted_forall_assignment, not by the unit",
           "_apply_effect (grounding and pre-state evaluation of one effect) is used by contract; the unit covers one action instance with two effects "
           "(every pair of effect kinds, equal or different ground fluents): a bounded symbolic check of the real merge code, not a proof for any number of effects",
           "constants are canonical (C16); values have the fluent's type class (C23)"]

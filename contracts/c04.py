"""C04 — time-triggered and sequential validation agree on instantaneous plans.

B: on the C01 problem family (instantaneous actions only, no timed effects/goals, initial state satisfies the
invariants and bounds) every plan up to the length bound is scheduled at pairwise distinct rational times
(several schedules per plan, including ones that reorder the instances): TimeTriggeredPlanValidator must
return VALID iff SequentialPlanValidator does on the instances in start-time order.
"""
import itertools
import random
import warnings
from fractions import Fraction
from rtc import seqcheck as SC
from spec import seqsem

UNITS = []
USES_THEORY = False


def signature(pr, plan):
    for a, ps in plan:
        for e in a.effects:
            t = e.fluent.fluent().type
            if (t.is_int_type() or t.is_real_type()) and (t.lower_bound is not None or t.upper_bound is not None):
                return "plan-writes-a-bounded-numeric-fluent"
    return "unclassified"


def bounded(tier, seed):
    from unified_planning.engines.plan_validator import SequentialPlanValidator, TimeTriggeredPlanValidator
    from unified_planning.engines.results import ValidationResultStatus
    from unified_planning.plans import SequentialPlan, TimeTriggeredPlan, ActionInstance
    nprob, maxlen, cap, nsched = (50, 2, 40, 2) if tier == "quick" else (400, 3, 150, 6)
    failures, evals, nontrivial, samples = [], 0, set(), []
    for s, pr in SC.problems(seed + 29, nprob, features={"max_actions": 2}):
        if not SequentialPlanValidator.supports(pr.kind) or not TimeTriggeredPlanValidator.supports(pr.kind):
            continue
        gas = seqsem.ground_actions(pr)
        rng = random.Random(s)
        plans = []
        for L in range(1, maxlen + 1):
            allp = list(itertools.product(gas, repeat=L))
            if len(allp) > cap:
                allp = rng.sample(allp, cap)
            plans += allp
        with warnings.catch_warnings():
            warnings.simplefilter("ignore")
            sv = SequentialPlanValidator(environment=pr.environment)
            tv = TimeTriggeredPlanValidator(environment=pr.environment)
        for plan in plans:
            for k in range(nsched):
                times = rng.sample([Fraction(i, 4) for i in range(0, 40)], len(plan))
                order = sorted(range(len(plan)), key=lambda i: times[i])
                seqplan = [plan[i] for i in order]
                evals += 1
                desc = {"problem": str(pr), "timed_plan": [f"{times[i]}: {plan[i][0].name}({','.join(o.name for o in plan[i][1])})" for i in range(len(plan))]}
                with warnings.catch_warnings():
                    warnings.simplefilter("ignore")
                    try:
                        rs = sv.validate(pr, SequentialPlan([ActionInstance(a, tuple(ps)) for a, ps in seqplan]))
                        rt = tv.validate(pr, TimeTriggeredPlan([(times[i], ActionInstance(plan[i][0], tuple(plan[i][1])), None) for i in range(len(plan))]))
                    except Exception as e:  # noqa
                        failures.append({"what": f"seed {s}: a validator raised {type(e).__name__}: {e} [{signature(pr, plan)}]",
                                         "concrete": desc, "observed": repr(e)})
                        break
                vs, vt = rs.status == ValidationResultStatus.VALID, rt.status == ValidationResultStatus.VALID
                if vs:
                    nontrivial.add((s, tuple(desc["timed_plan"])))
                if vs != vt:
                    failures.append({"what": f"seed {s}: sequential says {rs.status.name}, time-triggered says {rt.status.name} [{signature(pr, plan)}]",
                                     "concrete": desc, "observed": [rs.status.name, rt.status.name]})
                    break
                if len(samples) < 3 and vs:
                    samples.append({"problem": pr.name, "timed_plan": desc["timed_plan"], "both": "VALID"})
            if len(failures) >= 5:
                break
        if len(failures) >= 5:
            break
    return {"evaluations": evals, "distinct_nontrivial": len(nontrivial), "failures": failures,
            "rule": f"{nprob} generated problems, plans <= {maxlen} (sampled above {cap}), {nsched} schedules with pairwise "
                    f"distinct rational start times each; non-trivial = distinct timed plan that is VALID",
            "samples": samples, "bound": f"plans <= {maxlen}, {nsched} schedules"}


LEVEL = "other"
EXPLANATION = __doc__

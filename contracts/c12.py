"""C12 — NNF and DNF conversions are equivalent and in normal form.

B: random Boolean expressions (depth <= 3, constant comparisons, quantifier-free) over the real Nnf / Dnf classes:
truth-table equivalence over all interpretations of the (<= 6) atoms that occur, negation only on atoms (NNF),
disjunction of conjunctions of literals (DNF); constant tautologies / contradictions inside conjunctions included.
"""
import itertools
import warnings
from unified_planning.model.operators import OperatorKind as OK

UNITS = []
USES_THEORY = False


def atoms_of(e, acc):
    if e.node_type in (OK.AND, OK.OR, OK.NOT, OK.IMPLIES, OK.IFF):
        for a in e.args:
            atoms_of(a, acc)
    elif not e.is_bool_constant():
        c = canon(e)
        if c.is_not():           # simplification may turn an atom into a negated atom (e.g. not (a < b))
            c = c.arg(0)
        acc.add(canon(e))


def tv(e, val):
    k = e.node_type
    if k == OK.AND:
        return all(tv(a, val) for a in e.args)
    if k == OK.OR:
        return any(tv(a, val) for a in e.args)
    if k == OK.NOT:
        return not tv(e.arg(0), val)
    if k == OK.IMPLIES:
        return (not tv(e.arg(0), val)) or tv(e.arg(1), val)
    if k == OK.IFF:
        return tv(e.arg(0), val) == tv(e.arg(1), val)
    if e.is_bool_constant():
        return e.bool_constant_value()
    return val[canon(e)]


_canon = {}


def canon(e):
    """atoms are compared modulo simplification (Dnf simplifies the literals it returns; Simplifier is covered by C11)"""
    c = _canon.get(e)
    if c is None:
        c = e.simplify()
        _canon[e] = c
    return c


def const_value(e):
    """truth value of a constant comparison atom (e.g. 1 <= 2), else None"""
    if e.is_bool_constant():
        return e.bool_constant_value()
    if e.node_type in (OK.LE, OK.LT, OK.EQUALS) and all(a.is_constant() for a in e.args):
        a, b = (x.constant_value() for x in e.args)
        if e.node_type == OK.EQUALS:
            return a == b
        return a <= b if e.node_type == OK.LE else a < b
    return None


def is_literal(e):
    x = e.arg(0) if e.is_not() else e
    return x.node_type not in (OK.AND, OK.OR, OK.NOT, OK.IMPLIES, OK.IFF)


def systematic(g):
    """every expression of connective depth <= 2 over five atoms -- two free Boolean atoms, a comparison of two fluents, a reflexive strict
    comparison and a constant comparison -- with Not / And / Or / Implies / Iff, both sides equal included (x iff x, x implies x, ...)"""
    from unified_planning.shortcuts import LE, LT, Int, And, Or, Not, Implies, Iff
    atoms = [g.q(), g.p(g.objs[0]), LT(g.x(), g.z()), LT(g.x(), g.x()), LE(Int(1), Int(2))]
    conns = (And, Or, Implies, Iff)
    l1 = list(atoms) + [Not(a) for a in atoms] + [c(a, b) for c in conns for a in atoms for b in atoms]
    out = list(l1)
    out += [Not(e) for e in l1]
    for c in conns:
        for e in l1:
            out.append(c(e, e))
            for a in atoms[:3]:
                out.append(c(e, a))
                out.append(c(a, e))
    seen, res = set(), []
    for e in out:
        if e not in seen:
            seen.add(e)
            res.append(e)
    return res


def bounded(tier, seed):
    from rtc.exprgen import ExprGen
    from unified_planning.model.walkers import Dnf, Nnf
    from unified_planning.shortcuts import LE, LT, Int, And, Or, Not, Plus, Equals
    from spec.ev import ev as _ev, UNDEF as _UNDEF
    n = 600 if tier == "quick" else 12000
    g = ExprGen(seed, big=False)
    env = g.pr.environment
    nnf, dnf = Nnf(env), Dnf(env)
    failures, evals, nontrivial, samples = [], 0, set(), []
    rng = g.rng
    with warnings.catch_warnings():
        warnings.simplefilter("ignore")
        def stream():
            for k, e_ in enumerate(systematic(g)):
                yield -1 - k, e_
            for i_ in range(n):
                try:
                    e_ = g.boolean(3, quant=False)
                    if i_ % 3 == 0:      # force constant and REFLEXIVE comparisons (same term on both sides) into conjunctions / disjunctions
                        t = rng.choice([g.x(), g.y(), Plus(g.x(), g.z()), Plus(g.x(), 1)])
                        c1 = rng.choice([LE(Int(1), Int(2)), LT(Int(2), Int(1)), LE(Int(2), Int(3)), LT(t, t), LE(t, t), Equals(t, t), Not(LT(t, t))])
                        e_ = rng.choice([And, Or])(e_, c1, Not(g.boolean(1, quant=False)))
                except Exception:  # noqa
                    continue
                yield i_, e_
        nsys = 0
        for i, e in stream():
            nsys += i < 0
            try:
                ne, de = nnf.get_nnf_expression(e), dnf.get_dnf_expression(e)
            except Exception as ex:  # noqa
                failures.append({"what": f"conversion raised {type(ex).__name__}: {ex}", "concrete": {"expression": str(e)}, "observed": repr(ex)})
                continue
            evals += 1
            ats = set()
            for x in (e, ne, de):
                atoms_of(x, ats)
            free = [a for a in ats if const_value(a) is None]
            fixed = {a: const_value(a) for a in ats if const_value(a) is not None}
            if len(free) > 8:
                continue
            if len(free) >= 2:
                nontrivial.add(str(e))
            bad = None
            for bits in itertools.product([False, True], repeat=len(free)):
                val = dict(fixed)
                val.update(zip(free, bits))
                t0, t1, t2 = tv(e, val), tv(ne, val), tv(de, val)
                if t0 != t1:
                    bad = f"NNF differs under {dict((str(k), v) for k, v in val.items())}"
                    break
                if t0 != t2:
                    bad = f"DNF differs under {dict((str(k), v) for k, v in val.items())}"
                    break
            if bad is None:
                # independent of the library's simplifier (the truth tables above compare atoms modulo simplify()): the three expressions are
                # evaluated by the reference evaluator under random interpretations of the fluents
                for _ in range(4):
                    lk = g.interp()
                    try:
                        v0, v1, v2 = _ev(e, lk, {}, g.pr), _ev(ne, lk, {}, g.pr), _ev(de, lk, {}, g.pr)
                    except (ZeroDivisionError, KeyError):
                        continue
                    if _UNDEF in (v0, v1, v2):
                        continue
                    if v0 != v1 or v0 != v2:
                        bad = f"{'NNF' if v0 != v1 else 'DNF'} evaluates differently under an interpretation of the fluents (expression {v0}, NNF {v1}, DNF {v2})"
                        break
            if bad:
                failures.append({"what": bad.split(" under")[0] + " from the expression", "concrete": {"expression": str(e)},
                                 "observed": {"nnf": str(ne), "dnf": str(de), "valuation": bad}})
            # normal forms

            def nnf_ok(x):
                if x.is_not():
                    return is_literal(x)
                if x.is_and() or x.is_or():
                    return all(nnf_ok(a) for a in x.args)
                return x.node_type not in (OK.IMPLIES, OK.IFF)
            if not nnf_ok(ne):
                failures.append({"what": "NNF result applies negation to a non-atom (or keeps implies/iff)", "concrete": {"expression": str(e)}, "observed": str(ne)})
            disj = de.args if de.is_or() else [de]
            for d in disj:
                lits = d.args if d.is_and() else [d]
                if not all(is_literal(l) for l in lits):
                    failures.append({"what": "DNF result is not a disjunction of conjunctions of literals", "concrete": {"expression": str(e)}, "observed": str(de)})
                    break
            if len(samples) < 3 and i % 97 == 1:
                samples.append({"expression": str(e)[:150], "dnf": str(de)[:150]})
            if len(failures) >= 6:
                break
    se = nsys
    return {"evaluations": evals, "distinct_nontrivial": len(nontrivial), "failures": failures[:6],
            "rule": f"EXHAUSTIVE: every expression of connective depth <= 2 over 5 atoms (two free Boolean atoms, a numeric comparison, a reflexive strict "
                    f"comparison, a constant comparison) with Not / And / Or / Implies / Iff, both sides equal included ({se} expressions); "
                    f"{n} random quantifier-free Boolean expressions of depth <= 3 (one third with constant comparisons forced into a "
                    f"conjunction/disjunction), full truth table over the occurring atoms (<= 8); non-trivial = at least two free atoms",
            "samples": samples, "exhaustive": False, "bound": f"{n} expressions, depth <= 3"}


LEVEL = "exploration"
EXPLANATION = __doc__

"""C27 — deordering a valid sequential plan keeps every linearisation valid.

B: valid sequential plans (reference semantics) of generated problems without fluents nested in fluent
arguments (the deordering's documented restriction) up to the length bound, converted with the real
SequentialPlan.convert_to(PARTIAL_ORDER_PLAN): every topological ordering is a valid plan reaching the same
final state, and every pair of instances where one writes a ground fluent the other reads or writes stays
ordered as in the original plan (read/write sets computed independently, by grounding the syntax).
"""
import itertools
import random
import warnings
from rtc import seqcheck as SC
from spec import seqsem
from spec.ev import objects_of
from unified_planning.model.operators import OperatorKind as OK

UNITS = []
USES_THEORY = False


def ground_fluents_in(e, env, problem, out):
    k = e.node_type
    if k == OK.FLUENT_EXP:
        args = []
        for a in e.args:
            if a.is_object_exp():
                args.append(a.object())
            elif a.is_parameter_exp():
                args.append(env[a.parameter()])
            elif a.is_variable_exp():
                args.append(env[a.variable()])
            else:
                raise ValueError("nested")
        out.add((e.fluent().name, tuple(o.name for o in args)))
        return
    if k in (OK.EXISTS, OK.FORALL):
        vs = e.variables()
        for combo in itertools.product(*[objects_of(problem, v.type) for v in vs]):
            env2 = dict(env)
            env2.update(zip(vs, combo))
            ground_fluents_in(e.arg(0), env2, problem, out)
        return
    for a in e.args:
        ground_fluents_in(a, env, problem, out)


def read_write(problem, a, ps):
    env = dict(zip(a.parameters, ps))
    reads, writes = set(), set()
    for c in a.preconditions:
        ground_fluents_in(c, env, problem, reads)
    for eff in a.effects:
        vs = list(eff.forall)
        for combo in itertools.product(*[objects_of(problem, v.type) for v in vs]):
            env2 = dict(env)
            env2.update(zip(vs, combo))
            ground_fluents_in(eff.condition, env2, problem, reads)
            ground_fluents_in(eff.value, env2, problem, reads)
            t = set()
            ground_fluents_in(eff.fluent, env2, problem, t)
            writes |= t
            if eff.is_increase() or eff.is_decrease():
                reads |= t
    return reads, writes


def crafted_problem():
    """systematic family for the read/write analysis: quantified conditional effects, quantified preconditions,
    conditional effects reading another fluent, plain writers -- every plan of <= 3 ground instances is checked"""
    from unified_planning.shortcuts import (Problem, Fluent, BoolType, IntType, UserType, Object, InstantaneousAction, Variable,
                                            Exists, Forall, Not, And)
    L = UserType("L")
    pr = Problem("crafted_deorder")
    l1, l2 = Object("l1", L), Object("l2", L)
    pr.add_objects([l1, l2])
    opened, marked, flag = Fluent("opened", BoolType(), x=L), Fluent("marked", BoolType(), x=L), Fluent("flag", BoolType())
    cnt = Fluent("cnt", IntType(0, 5))
    pr.add_fluent(opened, default_initial_value=True)
    pr.add_fluent(marked, default_initial_value=False)
    pr.add_fluent(flag, default_initial_value=False)
    pr.add_fluent(cnt, default_initial_value=0)
    v = Variable("v", L)
    sweep = InstantaneousAction("sweep")
    sweep.add_effect(marked(v), True, opened(v), forall=(v,))          # forall v: when opened(v) then marked(v)
    close = InstantaneousAction("close", x=L)
    close.add_effect(opened(close.parameter("x")), False)
    unmark = InstantaneousAction("unmark", x=L)
    unmark.add_effect(marked(unmark.parameter("x")), False)
    raise_ = InstantaneousAction("raise_flag")
    raise_.add_precondition(Exists(marked(v), v))                        # quantified precondition
    raise_.add_effect(flag, True)
    count = InstantaneousAction("count", x=L)
    count.add_increase_effect(cnt, 1, marked(count.parameter("x")))     # conditional increase reading marked(x)
    reset = InstantaneousAction("reset")
    reset.add_effect(cnt, 0, flag)
    for a in (sweep, close, unmark, raise_, count, reset):
        pr.add_action(a)
    return pr


def crafted_numeric_readers_problem():
    """instances that only READ a numeric fluent (in a precondition, or copying its value) next to instances that increase / decrease /
    assign it: a reader followed by a cumulative writer must stay before it, although the writer 'also reads' the fluent"""
    from unified_planning.shortcuts import Problem, Fluent, BoolType, IntType, UserType, Object, InstantaneousAction, GE
    pr = Problem("crafted_deorder_numeric_readers")
    C = UserType("C")
    c1, c2 = Object("c1", C), Object("c2", C)
    pr.add_objects([c1, c2])
    n, cp, ok = Fluent("n", IntType(0, 6)), Fluent("cp", IntType(0, 6)), Fluent("ok", BoolType())
    cnt = Fluent("cnt", IntType(0, 6), c=C)
    pr.add_fluent(n, default_initial_value=1)
    pr.add_fluent(cp, default_initial_value=0)
    pr.add_fluent(ok, default_initial_value=False)
    pr.add_fluent(cnt, default_initial_value=3)
    check = InstantaneousAction("check")
    check.add_precondition(GE(n, 1))
    check.add_effect(ok, True)
    snapshot = InstantaneousAction("snapshot", c=C)
    snapshot.add_effect(cp, cnt(snapshot.parameter("c")))
    tick = InstantaneousAction("tick", c=C)
    tick.add_increase_effect(cnt(tick.parameter("c")), 1)
    burn = InstantaneousAction("burn")
    burn.add_decrease_effect(n, 1)
    refill = InstantaneousAction("refill")
    refill.add_effect(n, 2)
    for a in (check, snapshot, tick, burn, refill):
        pr.add_action(a)
    return pr


def crafted_invariant_problem():
    """state invariants couple fluents that no single action reads: `not p(x) or q` -- an instance writing p(x) and one writing q touch
    different fluents, yet their relative order decides whether the invariant holds in between"""
    from unified_planning.shortcuts import Problem, Fluent, BoolType, IntType, UserType, Object, InstantaneousAction, Not, Or, LE
    L = UserType("L")
    pr = Problem("crafted_deorder_invariant")
    l1, l2 = Object("l1", L), Object("l2", L)
    pr.add_objects([l1, l2])
    p, q = Fluent("p", BoolType(), x=L), Fluent("q", BoolType())
    n, m = Fluent("n", IntType(0, 4)), Fluent("m", IntType(0, 4))
    pr.add_fluent(p, default_initial_value=False)
    pr.add_fluent(q, default_initial_value=False)
    pr.add_fluent(n, default_initial_value=0)
    pr.add_fluent(m, default_initial_value=2)
    pr.add_state_invariant(Or(Not(p(l1)), q()))
    pr.add_state_invariant(LE(n(), m()))
    setp = InstantaneousAction("setp", x=L)
    setp.add_effect(p(setp.parameter("x")), True)
    setq = InstantaneousAction("setq")
    setq.add_effect(q(), True)
    clrq = InstantaneousAction("clrq")
    clrq.add_effect(q(), False)
    clrp = InstantaneousAction("clrp", x=L)
    clrp.add_effect(p(clrp.parameter("x")), False)
    incn = InstantaneousAction("incn")
    incn.add_increase_effect(n(), 2)
    incm = InstantaneousAction("incm")
    incm.add_increase_effect(m(), 2)
    for a in (setp, setq, clrq, clrp, incn, incm):
        pr.add_action(a)
    return pr


def bounded(tier, seed):
    import networkx as nx
    from unified_planning.plans import SequentialPlan, ActionInstance, PlanKind
    nprob, maxlen, cap = (80, 3, 120) if tier == "quick" else (700, 4, 400)
    failures, evals, nontrivial, samples = [], 0, set(), []
    feats = {"objfluent": 0.0, "max_actions": 3, "undefined": 0.0, "forall_effects": 0.5, "conditional": 0.6, "numeric": 0.4}
    def problem_stream():
        yield "crafted", crafted_problem()
        yield "crafted-invariant", crafted_invariant_problem()
        yield "crafted-numeric-readers", crafted_numeric_readers_problem()
        yield from SC.problems(seed + 41, nprob, features=feats)
    for s, pr in problem_stream():
        gas = seqsem.ground_actions(pr)
        rng = random.Random(s if isinstance(s, int) else 0)
        init = seqsem.initial_state(pr)
        # valid plan prefixes by DFS on the reference semantics (no goal requirement: executability + same final state)
        plans = []
        if isinstance(s, str):       # crafted problems: exhaustive: every executable plan of 2..3 instances
            for L_ in (2, 3):
                for cand in itertools.product(gas, repeat=L_):
                    st_ = init
                    for (a_, ps_) in cand:
                        st_ = seqsem.successor(pr, st_, a_, ps_)
                        if st_ is None:
                            break
                    if st_ is not None:
                        plans.append((list(cand), st_))

        def dfs(prefix, st):
            if len(plans) >= cap:
                return
            if len(prefix) >= 2:
                plans.append((list(prefix), st))
            if len(prefix) == maxlen:
                return
            order = list(gas)
            rng.shuffle(order)
            for (a, ps) in order[:6]:
                try:
                    s2 = seqsem.successor(pr, st, a, ps)
                except seqsem.Ambiguous:
                    continue
                if s2 is not None:
                    dfs(prefix + [(a, ps)], s2)
        if not isinstance(s, str):
            dfs([], init)
        for plan, final in plans:
            ais = [ActionInstance(a, tuple(ps)) for a, ps in plan]
            desc = {"problem": str(pr), "plan": [f"{a.name}({','.join(o.name for o in ps)})" for a, ps in plan]}
            with warnings.catch_warnings():
                warnings.simplefilter("ignore")
                try:
                    pop = SequentialPlan(ais).convert_to(PlanKind.PARTIAL_ORDER_PLAN, pr)
                except Exception as e:  # noqa
                    failures.append({"what": f"seed {s}: deordering raised {type(e).__name__}: {e}", "concrete": desc, "observed": repr(e)})
                    continue
            evals += 1
            g = pop._graph
            idx = {id(ai): i for i, ai in enumerate(ais)}
            rw = [read_write(pr, a, ps) for a, ps in plan]
            # structural clause
            for i in range(len(plan)):
                for j in range(i + 1, len(plan)):
                    (ri, wi), (rj, wj) = rw[i], rw[j]
                    if (wi & (rj | wj)) or (wj & ri):
                        if not nx.has_path(g, ais[i], ais[j]):
                            failures.append({"what": f"seed {s}: instances {i} and {j} conflict on {sorted((wi & (rj | wj)) | (wj & ri))} "
                                                     f"but the partial order does not keep their order", "concrete": desc, "observed": None})
            # every linearisation valid with the same final state
            nlin = 0
            for order in nx.all_topological_sorts(g):
                nlin += 1
                if nlin > 30:
                    break
                st = init
                ok = True
                for ai in order:
                    a, ps = plan[idx[id(ai)]]
                    try:
                        st = seqsem.successor(pr, st, a, ps)
                    except seqsem.Ambiguous:
                        ok = None
                        break
                    if st is None:
                        ok = False
                        break
                if ok is None:
                    continue
                lin = [desc["plan"][idx[id(ai)]] for ai in order]
                if not ok:
                    failures.append({"what": f"seed {s}: linearisation {lin} of the deordered plan is not executable", "concrete": desc, "observed": lin})
                    break
                if not SC.same_state(st, final):
                    failures.append({"what": f"seed {s}: linearisation {lin} reaches a different final state", "concrete": desc, "observed": lin})
                    break
            if nlin > 1:
                nontrivial.add((s, tuple(desc["plan"])))
                if len(samples) < 3:
                    samples.append({"problem": pr.name, "plan": desc["plan"], "linearisations": min(nlin, 30)})
            if len(failures) >= 5:
                break
        if len(failures) >= 5:
            break
    return {"evaluations": evals, "distinct_nontrivial": len(nontrivial), "failures": failures[:5],
            "rule": f"{nprob} generated problems (no nested fluents), executable plans of 2..{maxlen} instances (<= {cap} per problem), "
                    f"<= 30 linearisations each; non-trivial = plan whose partial order admits more than one linearisation",
            "samples": samples, "bound": f"plans <= {maxlen}"}


LEVEL = "exploration"
EXPLANATION = __doc__

"""C01 — the sequential simulator computes exactly the documented successor semantics.

P (kernels, real source): UPSequentialSimulator._evaluate_effect -- the function in which "Boolean assigned both values ends true", "two
different values make the action inapplicable", "increases and decreases accumulate" and "everything is evaluated in the pre-state" are
decided -- is executed symbolically against a transition specification written from the statement, over arbitrary bookkeeping
containers (updated_values, assigned_fluent), for every path: returned (fluent, value), the update of assigned_fluent, which exception
is raised, no other write (frame, also on the exceptional exits), and every call of the state evaluator is on the pre-state.
StateEvaluator.evaluate exit-state is proved in C14.
B: run-time contract on the public API (get_initial_state / is_applicable / apply) against the
independent reference semantics spec/seqsem.py on generated problems, every state reachable within the
depth bound, every ground action instance.
"""
import warnings
from rtc import seqcheck as SC
from spec import seqsem



def _stop(failures):
    from rtc.known import stop
    return stop("C01", failures, 5)

USES_THEORY = False


def signature(pr, a, ps=None):
    """classifies a failing (problem, action) by a known cause, so that known findings are matched by
    the specific input shape and every other failure is still reported"""
    fve = pr.environment.free_vars_oracle
    if ps is not None and SC.static_conflict_after_grounding(pr, a, ps):
        return SC.STATIC_TAG
    for e in a.effects:
        if e.is_forall() and (e.is_increase() or e.is_decrease()):
            c = e.condition.simplify()
            used = set(fve.get_free_variables(e.fluent)) | set(fve.get_free_variables(e.value)) | set(fve.get_free_variables(c))
            if any(v not in used for v in e.forall):
                return "forall-incdec-variable-only-in-a-condition-that-simplifies-away"
    return "unclassified"


def bounded(tier, seed):
    from unified_planning.engines.sequential_simulator import UPSequentialSimulator
    nprob, depth = (120, 2) if tier == "quick" else (1500, 3)
    failures, evals, nontrivial, samples = [], 0, set(), []
    skipped = 0
    for s, pr in SC.problems(seed, nprob):
        try:
            with warnings.catch_warnings():
                warnings.simplefilter("ignore")
                sim = UPSequentialSimulator(pr, error_on_failed_checks=True)
                init = sim.get_initial_state()
        except Exception as e:  # noqa
            skipped += 1
            continue
        ref0 = seqsem.initial_state(pr)
        if not SC.same_state(SC.read_state(pr, init), ref0):
            failures.append({"what": f"seed {s}: initial state differs from the declared initial values",
                             "concrete": SC.describe(pr, ref0), "observed": str(SC.read_state(pr, init))})
            continue
        states, gas = SC.explore(pr, depth)
        for st in states:
            ups = SC.mk_upstate(pr, st)
            for (a, ps) in gas:
                try:
                    want = seqsem.successor(pr, st, a, ps)
                except seqsem.Ambiguous:
                    continue
                evals += 1
                with warnings.catch_warnings():
                    warnings.simplefilter("ignore")
                    try:
                        app = sim.is_applicable(ups, a, ps)
                        got = sim.apply(ups, a, ps)
                    except Exception as e:  # noqa
                        failures.append({"what": f"seed {s}: simulator raised {type(e).__name__}: {e}",
                                         "concrete": SC.describe(pr, st, a, ps), "observed": repr(e)})
                        break
                key = (s, seqsem.freeze(st), a.name, tuple(o.name for o in ps))
                if want is not None:
                    nontrivial.add(key)
                if (want is None) != (got is None):
                    failures.append({"what": f"seed {s}: apply {'rejects' if got is None else 'accepts'} an action instance the semantics "
                                             f"{'accepts' if got is None else 'rejects'} [{signature(pr, a, ps)}]",
                                     "concrete": SC.describe(pr, st, a, ps), "observed": None if got is None else str(SC.read_state(pr, got))})
                    break
                if want is not None and not SC.same_state(SC.read_state(pr, got), want):
                    failures.append({"what": f"seed {s}: successor differs from the documented semantics [{signature(pr, a)}]",
                                     "concrete": SC.describe(pr, st, a, ps),
                                     "observed": {"got": str(SC.read_state(pr, got)), "want": str(want)}})
                    break
                if len(samples) < 3 and want is not None and evals % 37 == 0:
                    samples.append(SC.describe(pr, st, a, ps) | {"problem": pr.name})
            if _stop(failures):
                break
        if _stop(failures):
            break
        # long histories on the simulator's own state chain (no fresh states): 2 random walks of 26 applicable steps
        import random as _r
        for w in range(2):
            if _stop(failures):
                break
            rng = _r.Random(s * 31 + w)
            ref, cur = ref0, init
            for step in range(26):
                cands = []
                for (a, ps) in gas:
                    try:
                        nxt = seqsem.successor(pr, ref, a, ps)
                    except seqsem.Ambiguous:
                        nxt = None
                    if nxt is not None:
                        cands.append((a, ps, nxt))
                if not cands:
                    break
                changing = [c for c in cands if not SC.same_state(c[2], ref)]
                a, ps, nxt = rng.choice(changing or cands)
                with warnings.catch_warnings():
                    warnings.simplefilter("ignore")
                    got = sim.apply(cur, a, ps)
                evals += 1
                if got is None or not SC.same_state(SC.read_state(pr, got), nxt):
                    failures.append({"what": f"seed {s}: after a history of {step + 1} applications the simulator's state differs from the "
                                             f"documented semantics [{signature(pr, a, ps if got is None else None)}]",
                                     "concrete": SC.describe(pr, ref, a, ps) | {"history_length": step + 1},
                                     "observed": None if got is None else str(SC.read_state(pr, got))})
                    break
                ref, cur = nxt, got
    return {"evaluations": evals, "distinct_nontrivial": len(nontrivial), "failures": failures,
            "rule": f"{nprob} generated problems (rtc/gen.py grammar), states reachable within depth {depth} under the "
                    f"reference semantics, every ground action instance; non-trivial = distinct (problem, state, action "
                    f"instance) where the action is applicable", "samples": samples, "skipped_unsupported": skipped,
            "bound": f"{nprob} problems, depth {depth}, <= 60 states each"}


LEVEL = "other"
EXPLANATION = __doc__


# ======================================================================================================= proved kernel
import z3
from pyvc.values import Ref, Seq, Map, Set, SBool, SRef, SUnion, SSeq, SMap, SSet, Rec, CList, Loc, ExcVal, fresh_name, zbool, Unsupported
from pyvc.values import Bool as PBool
from pyvc.verify import Unit
from pyvc import builtins as B
from contracts import theory as T
from contracts.theory import OK, OKT, node_type, evn
import unified_planning.engines.sequential_simulator as _ss
from unified_planning.exceptions import UPConflictingEffectsException as _Conflict, UPStateMissingFluentError as _Missing

_F = T.FNode.z3sort()
State01 = Ref("State01")
SE01 = Ref("StateEvaluator01")
_E = z3.Function("evaluate_in_pre_state", _F, _F)                     # value of an expression in the pre-state (a constant node)
_defined = z3.Function("defined_in_pre_state", _F, z3.BoolSort())     # evaluation does not hit a fluent without a value
_G = z3.Function("ground_fluent_of", T.Fluent.z3sort(), z3.ArraySort(z3.IntSort(), _F), z3.IntSort(), _F)
CONST_KINDS = (OK.BOOL_CONSTANT, OK.INT_CONSTANT, OK.REAL_CONSTANT, OK.OBJECT_EXP)
_pb = B._uf("FNode.payload.BOOL_CONSTANT", _F, z3.BoolSort())
_pi = B._uf("FNode.payload.INT_CONSTANT", _F, z3.IntSort())
_pr = B._uf("FNode.payload.REAL_CONSTANT", _F, z3.RealSort())
_po = B._uf("FNode.payload.OBJECT_EXP", _F, T.Object.z3sort())


def is_const(x):
    return z3.Or([node_type(x) == OKT.consts[k] for k in CONST_KINDS])


def is_num_const(x):
    return z3.Or(node_type(x) == OKT.consts[OK.INT_CONSTANT], node_type(x) == OKT.consts[OK.REAL_CONSTANT])


def numval(x):
    return z3.If(node_type(x) == OKT.consts[OK.INT_CONSTANT], z3.ToReal(_pi(x)), _pr(x))


def _evaluate(eng, st, selfv, args, kw):
    exp, state = args
    st.oblige("the state evaluator is called on the pre-state", state.z == st.ghost["pre_state"].z)
    for s, ok in eng.branch(st, _defined(exp.z), "evaluate:defined"):
        if ok:
            r = _E(exp.z)
            s.assume(is_const(r), T.args_len(r) == 0)
            yield s, T.FNode.wrap(r)
        else:
            yield s, ExcVal(_Missing, (), "StateEvaluator.evaluate")


SE01.methods["evaluate"] = _evaluate


def _fluent_call(eng, st, selfv, args, kw):
    from pyvc.engine import StarSeq
    seq = B.concat_star(eng, st, list(args)) if any(isinstance(a, StarSeq) for a in args) else SSeq.of(T.FNode, list(args))
    r = _G(selfv.z, seq.arr, seq.n)
    _typed_ground(st, r)
    yield st, T.FNode.wrap(r)


def _typed_ground(st, g):
    """C23: an increase / decrease effect is numeric -- the pre-state value of its ground fluent and every value recorded for it are numbers"""
    not_assign = st.ghost["not_assign"]
    upd = st.ghost["upd0"]
    val = st.ghost["value_node"]
    isb = lambda x: node_type(x) == OKT.consts[OK.BOOL_CONSTANT]      # noqa: E731
    st.assume(z3.Implies(z3.And(not_assign, _defined(g)), is_num_const(_E(g))),
              z3.Implies(z3.And(not_assign, z3.Select(upd.has, g)), is_num_const(z3.Select(upd.val, g))),
              # an earlier value and the new value of one fluent have the fluent's type class: both Boolean or neither
              z3.Implies(z3.Select(upd.has, g), isb(z3.Select(upd.val, g)) == isb(_E(val))),
              z3.Implies(_defined(val), isb(_E(val)) == B._uf("Type.is_bool_type()", T.Type.z3sort(), z3.BoolSort())(B._uf("FNode.type", _F, T.Type.z3sort())(g))))


def _auto_promote(eng, st, selfv, args, kw):
    (v,) = args
    from pyvc.values import SInt, SReal
    from fractions import Fraction
    if isinstance(v, (SInt, int)) and not isinstance(v, bool):
        yield st, st.alloc(CList([T.mk_int(eng, st, v)]), "list")
    elif isinstance(v, (SReal, Fraction)):
        # uniform_numeric_constant: an integral Fraction becomes an int constant; the numeric value is what matters here
        r = T.mk_real(eng, st, v)
        yield st, st.alloc(CList([r]), "list")
    else:
        raise Unsupported(f"auto_promote({v!r})")


class EvaluateEffect(Unit):
    prop = "C01"
    name = "UPSequentialSimulator._evaluate_effect"
    doc = "one effect against the bookkeeping of the effects already processed: transition specification of the statement, frame, pre-state evaluation"
    allowed_raises = (_Conflict, _Missing)

    def target(self):
        return _ss.UPSequentialSimulator._evaluate_effect

    def configure(self, eng):
        eng.axioms += T.semantic_axioms((OK.BOOL_CONSTANT, OK.INT_CONSTANT, OK.REAL_CONSTANT, OK.OBJECT_EXP))
        T.Fluent.methods["__call__"] = _fluent_call
        T.Manager.methods["auto_promote"] = _auto_promote
        eng.UNROLL = 1      # arity of the effect's fluent (irrelevant to the bookkeeping): 0 and 1 argument explored, labelled bounded
        # canonical constants (hash-consing + numeric normalisation, C16): equal values are the same node
        a, b = z3.Const("a!c01", _F), z3.Const("b!c01", _F)
        C = OKT.consts
        eng.axioms += [
            z3.ForAll([a, b], z3.Implies(z3.And(node_type(a) == C[OK.BOOL_CONSTANT], node_type(b) == C[OK.BOOL_CONSTANT], _pb(a) == _pb(b)), a == b),
                      patterns=[z3.MultiPattern(_pb(a), _pb(b))]),
            z3.ForAll([a, b], z3.Implies(z3.And(node_type(a) == C[OK.OBJECT_EXP], node_type(b) == C[OK.OBJECT_EXP], _po(a) == _po(b)), a == b),
                      patterns=[z3.MultiPattern(_po(a), _po(b))]),
            z3.ForAll([a, b], z3.Implies(z3.And(is_num_const(a), is_num_const(b), numval(a) == numval(b)), a == b),
                      patterns=[z3.MultiPattern(node_type(a), node_type(b))]),
            # a real constant is never integral (it would have been normalised to an int constant)
            z3.ForAll([a], z3.Implies(node_type(a) == C[OK.REAL_CONSTANT], z3.Not(z3.IsInt(_pr(a)))), patterns=[_pr(a)])]

    def setup(self, eng, st):
        se = SE01.fresh("se")
        w = st.alloc(Rec(_ss.UPSequentialSimulator, {"_se": se}), "simulator")
        eff = T.Effect.fresh("effect")
        state = State01.fresh("state")
        st.ghost["pre_state"] = state
        upd = eng.fresh_of(st, Map(T.FNode, T.FNode), "updated_values")
        asg = eng.fresh_of(st, Set(T.FNode), "assigned_fluent")
        em = T.Manager.fresh("em")
        uloc, aloc = st.alloc(upd, "dict"), st.alloc(asg, "set")
        # the effect is well formed (C23): its fluent is a fluent expression, its kind one of the three the simulator supports
        fl = B.field_uf(eng, st, eff, "_fluent")
        st.assume(node_type(fl.z) == OKT.consts[OK.FLUENT_EXP])
        from unified_planning.model.effect import EffectKind as _EK
        kind = B._uf("Effect._kind", T.Effect.z3sort(), T.EKT.z3sort())(eff.z)
        st.assume(z3.Or([kind == T.EKT.consts[x] for x in (_EK.ASSIGN, _EK.INCREASE, _EK.DECREASE)]))
        not_assign = kind != T.EKT.consts[_EK.ASSIGN]
        st.ghost["not_assign"], st.ghost["upd0"] = not_assign, upd
        val = B._uf("Effect._value", T.Effect.z3sort(), _F)(eff.z)
        st.ghost["value_node"] = val
        st.assume(z3.Implies(z3.And(not_assign, _defined(val)), is_num_const(_E(val))))
        # values already recorded are constants of the fluent's type class; recorded accumulations are numeric
        k = z3.Const(fresh_name("k"), _F)
        st.assume(z3.ForAll([k], z3.Implies(z3.Select(upd.has, k), is_const(z3.Select(upd.val, k))), patterns=[z3.Select(upd.val, k)]))
        return [w, eff, state, uloc, aloc, em], {}, dict(eff=eff, upd=upd, asg=asg, uloc=uloc, aloc=aloc, fl=fl)

    def post(self, eng, ctx, st, out):
        eff, upd0, asg0 = ctx["eff"], ctx["upd"], ctx["asg"]
        upd1, asg1 = st.load(ctx["uloc"]), st.load(ctx["aloc"])
        k = z3.Const(fresh_name("k"), _F)
        fl = ctx["fl"].z
        fluent_obj = B._uf("FNode.payload.FLUENT_EXP", _F, T.Fluent.z3sort())(fl)
        j = z3.Int(fresh_name("j"))
        # the ground fluent: the effect's fluent applied to its arguments evaluated in the pre-state
        gs = [g for g in (st.ghost.get("ground"),) if g is not None]
        st.oblige("updated_values is not written by the function (the caller stores the returned pair)",
                  z3.BoolVal(isinstance(upd1, SMap)) if not isinstance(upd1, SMap) else z3.And(upd1.has == upd0.has, upd1.val == upd0.val))
        kind = B._uf("Effect._kind", T.Effect.z3sort(), T.EKT.z3sort())(eff.z)
        EK = T.EKT.consts
        from unified_planning.model.effect import EffectKind
        cond = B._uf("Effect._condition", T.Effect.z3sort(), _F)(eff.z)
        val = B._uf("Effect._value", T.Effect.z3sort(), _F)(eff.z)
        cond_true_node = z3.And(node_type(cond) == OKT.consts[OK.BOOL_CONSTANT], _pb(cond))
        fires = z3.Or(cond_true_node, z3.And(node_type(_E(cond)) == OKT.consts[OK.BOOL_CONSTANT], _pb(_E(cond))))
        v = _E(val)
        if out[0] == "raise":
            st.oblige("a rejected effect leaves assigned_fluent unchanged", asg1.has == asg0.has)
            if out[1].cls is _Conflict:
                g = st.ghost.get("last_ground")
            return
        r = out[1]
        rf, rv = r
        if rf is None:
            st.oblige("no change is reported only together (fluent None <=> value None)", z3.BoolVal(rv is None))
            st.oblige("assigned_fluent unchanged when nothing is reported", asg1.has == asg0.has)
            return
        g = rf.z
        has_old, old, in_as = z3.Select(upd0.has, g), z3.Select(upd0.val, g), z3.Select(asg0.has, g)
        is_assign = kind == EK[EffectKind.ASSIGN]
        st.oblige("a reported write means the effect's condition holds in the pre-state", fires)
        # --- assignment
        st.oblige("assignment: the reported value is the effect's value evaluated in the pre-state", z3.Implies(is_assign, rv.z == v))
        st.oblige("assignment reported over an earlier different value only for a Boolean fluent that was false (add-after-delete)",
                  z3.Implies(z3.And(is_assign, has_old, old != v),
                             z3.And(node_type(old) == OKT.consts[OK.BOOL_CONSTANT], z3.Not(_pb(old)))))
        st.oblige("assignment over an earlier equal value only if that value came from an assignment",
                  z3.Implies(z3.And(is_assign, has_old, old == v), in_as))
        st.oblige("assignment: the fluent is recorded as assigned (unless add-after-delete on an already assigned fluent)",
                  z3.Implies(is_assign, z3.Or(z3.Select(asg1.has, g), z3.And(has_old, old != v))))
        st.oblige("assigned_fluent grows by at most the written fluent",
                  z3.ForAll([k], z3.Implies(k != g, z3.Select(asg1.has, k) == z3.Select(asg0.has, k))))
        st.oblige("assigned_fluent never shrinks", z3.Implies(in_as, z3.Select(asg1.has, g)))
        # --- increase / decrease
        inc, dec = kind == EK[EffectKind.INCREASE], kind == EK[EffectKind.DECREASE]
        base = z3.If(has_old, old, _E(g))
        st.oblige("increase / decrease never on a fluent assigned in the same action", z3.Implies(z3.Not(is_assign), z3.Not(in_as)))
        st.oblige("increase: accumulated value (earlier accumulation, else the pre-state value) plus the amount",
                  z3.Implies(inc, z3.And(is_num_const(rv.z), numval(rv.z) == numval(base) + numval(v))))
        st.oblige("decrease: accumulated value minus the amount",
                  z3.Implies(dec, z3.And(is_num_const(rv.z), numval(rv.z) == numval(base) - numval(v))))
        st.oblige("increase / decrease do not mark the fluent as assigned", z3.Implies(z3.Not(is_assign), asg1.has == asg0.has))


class EvaluateEffectRejections(EvaluateEffect):
    """the other direction: when the specification says `conflict`, the function raises (it does not silently pick a value)"""
    name = "UPSequentialSimulator._evaluate_effect (rejections are complete)"
    doc = "given the ground fluent: two different non-Boolean values, assignment mixed with increase/decrease => UPConflictingEffectsException; Boolean true absorbs"

    def setup(self, eng, st):
        args, kw, ctx = super().setup(eng, st)
        g = T.FNode.fresh("ground_fluent")
        _typed_ground(st, g.z)
        ctx["g"] = g
        return args, {"evaluated_fluent": g}, ctx

    def post(self, eng, ctx, st, out):
        eff, upd0, asg0, g = ctx["eff"], ctx["upd"], ctx["asg"], ctx["g"].z
        from unified_planning.model.effect import EffectKind
        kind = B._uf("Effect._kind", T.Effect.z3sort(), T.EKT.z3sort())(eff.z)
        EK = T.EKT.consts
        cond = B._uf("Effect._condition", T.Effect.z3sort(), _F)(eff.z)
        val = B._uf("Effect._value", T.Effect.z3sort(), _F)(eff.z)
        cond_true_node = z3.And(node_type(cond) == OKT.consts[OK.BOOL_CONSTANT], _pb(cond))
        fires = z3.Or(cond_true_node, z3.And(node_type(_E(cond)) == OKT.consts[OK.BOOL_CONSTANT], _pb(_E(cond))))
        v = _E(val)
        has_old, old, in_as = z3.Select(upd0.has, g), z3.Select(upd0.val, g), z3.Select(asg0.has, g)
        is_assign = kind == EK[EffectKind.ASSIGN]
        gtype = B._uf("FNode.type", _F, T.Type.z3sort())(g)
        gbool = B._uf("Type.is_bool_type()", T.Type.z3sort(), z3.BoolSort())(gtype)
        # values have the type class of the fluent (C23): Boolean fluent <=> Boolean constants
        typed = z3.And(gbool == (node_type(v) == OKT.consts[OK.BOOL_CONSTANT]),
                       z3.Implies(has_old, gbool == (node_type(old) == OKT.consts[OK.BOOL_CONSTANT])))
        conflict = z3.And(fires, z3.Or(z3.And(is_assign, has_old, old != v, z3.Not(gbool)),
                                       z3.And(is_assign, has_old, old == v, z3.Not(in_as)),
                                       z3.And(z3.Not(is_assign), in_as)))
        if out[0] == "raise":
            if out[1].cls is _Conflict:
                st.oblige("UPConflictingEffectsException only for a conflict of the specification", z3.Implies(typed, conflict))
            return
        rf, rv = out[1]
        st.oblige("a conflict of the specification is never accepted", z3.Implies(typed, z3.Not(conflict)))
        if rf is None:
            absorbed = z3.And(is_assign, has_old, old != v, gbool, _pb(old))
            st.oblige("nothing is reported only if the condition is false or a Boolean true absorbs a later false",
                      z3.Implies(typed, z3.Or(z3.Not(fires), absorbed)))
        else:
            st.oblige("the reported fluent is the ground fluent of the effect", rf.z == g)


UNITS = [EvaluateEffect(), EvaluateEffectRejections()]
TRUSTED = ["StateEvaluator.evaluate returns the constant value of an expression in the given state or raises UPStateMissingFluentError (its exit "
           "state is proved in C14; its value is the reference semantics of the bounded layer)",
           "constants are canonical (hash-consing and numeric normalisation, C16); recorded values have the fluent's type class (C23)",
           "Fluent.__call__ builds the fluent expression of its arguments; arity of the fluent explored for 0 and 1 argument in the grounding expression (labelled bounded); the second unit takes the ground fluent as given and is unbounded"]

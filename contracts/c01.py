"""C01 — the sequential simulator computes exactly the documented successor semantics.

P (kernels, real source): StateEvaluator.evaluate exit-state (shared with C14).
B: run-time contract on the public API (get_initial_state / is_applicable / apply) against the
independent reference semantics spec/seqsem.py on generated problems, every state reachable within the
depth bound, every ground action instance.
"""
import warnings
from rtc import seqcheck as SC
from spec import seqsem

UNITS = []


def _stop(failures):
    from rtc.known import stop
    return stop("C01", failures, 5)

USES_THEORY = False


def signature(pr, a):
    """classifies a failing (problem, action) by a known cause, so that known findings are matched by
    the specific input shape and every other failure is still reported"""
    fve = pr.environment.free_vars_oracle
    for e in a.effects:
        if e.is_forall() and (e.is_increase() or e.is_decrease()):
            c = e.condition.simplify()
            used = set(fve.get_free_variables(e.fluent)) | set(fve.get_free_variables(e.value)) | set(fve.get_free_variables(c))
            if any(v not in used for v in e.forall):
                return "forall-incdec-variable-only-in-a-condition-that-simplifies-away"
    return "unclassified"


def bounded(tier, seed):
    from unified_planning.engines.sequential_simulator import UPSequentialSimulator
    nprob, depth = (120, 2) if tier == "quick" else (1500, 3)
    failures, evals, nontrivial, samples = [], 0, set(), []
    skipped = 0
    for s, pr in SC.problems(seed, nprob):
        try:
            with warnings.catch_warnings():
                warnings.simplefilter("ignore")
                sim = UPSequentialSimulator(pr, error_on_failed_checks=True)
                init = sim.get_initial_state()
        except Exception as e:  # noqa
            skipped += 1
            continue
        ref0 = seqsem.initial_state(pr)
        if not SC.same_state(SC.read_state(pr, init), ref0):
            failures.append({"what": f"seed {s}: initial state differs from the declared initial values",
                             "concrete": SC.describe(pr, ref0), "observed": str(SC.read_state(pr, init))})
            continue
        states, gas = SC.explore(pr, depth)
        for st in states:
            ups = SC.mk_upstate(pr, st)
            for (a, ps) in gas:
                try:
                    want = seqsem.successor(pr, st, a, ps)
                except seqsem.Ambiguous:
                    continue
                evals += 1
                with warnings.catch_warnings():
                    warnings.simplefilter("ignore")
                    try:
                        app = sim.is_applicable(ups, a, ps)
                        got = sim.apply(ups, a, ps)
                    except Exception as e:  # noqa
                        failures.append({"what": f"seed {s}: simulator raised {type(e).__name__}: {e}",
                                         "concrete": SC.describe(pr, st, a, ps), "observed": repr(e)})
                        break
                key = (s, seqsem.freeze(st), a.name, tuple(o.name for o in ps))
                if want is not None:
                    nontrivial.add(key)
                if (want is None) != (got is None):
                    failures.append({"what": f"seed {s}: apply {'rejects' if got is None else 'accepts'} an action instance the semantics "
                                             f"{'accepts' if got is None else 'rejects'} [{signature(pr, a)}]",
                                     "concrete": SC.describe(pr, st, a, ps), "observed": None if got is None else str(SC.read_state(pr, got))})
                    break
                if want is not None and not SC.same_state(SC.read_state(pr, got), want):
                    failures.append({"what": f"seed {s}: successor differs from the documented semantics [{signature(pr, a)}]",
                                     "concrete": SC.describe(pr, st, a, ps),
                                     "observed": {"got": str(SC.read_state(pr, got)), "want": str(want)}})
                    break
                if len(samples) < 3 and want is not None and evals % 37 == 0:
                    samples.append(SC.describe(pr, st, a, ps) | {"problem": pr.name})
            if _stop(failures):
                break
        if _stop(failures):
            break
        # long histories on the simulator's own state chain (no fresh states): 2 random walks of 26 applicable steps
        import random as _r
        for w in range(2):
            if _stop(failures):
                break
            rng = _r.Random(s * 31 + w)
            ref, cur = ref0, init
            for step in range(26):
                cands = []
                for (a, ps) in gas:
                    try:
                        nxt = seqsem.successor(pr, ref, a, ps)
                    except seqsem.Ambiguous:
                        nxt = None
                    if nxt is not None:
                        cands.append((a, ps, nxt))
                if not cands:
                    break
                changing = [c for c in cands if not SC.same_state(c[2], ref)]
                a, ps, nxt = rng.choice(changing or cands)
                with warnings.catch_warnings():
                    warnings.simplefilter("ignore")
                    got = sim.apply(cur, a, ps)
                evals += 1
                if got is None or not SC.same_state(SC.read_state(pr, got), nxt):
                    failures.append({"what": f"seed {s}: after a history of {step + 1} applications the simulator's state differs from the "
                                             f"documented semantics [{signature(pr, a)}]",
                                     "concrete": SC.describe(pr, ref, a, ps) | {"history_length": step + 1},
                                     "observed": None if got is None else str(SC.read_state(pr, got))})
                    break
                ref, cur = nxt, got
    return {"evaluations": evals, "distinct_nontrivial": len(nontrivial), "failures": failures,
            "rule": f"{nprob} generated problems (rtc/gen.py grammar), states reachable within depth {depth} under the "
                    f"reference semantics, every ground action instance; non-trivial = distinct (problem, state, action "
                    f"instance) where the action is applicable", "samples": samples, "skipped_unsupported": skipped,
            "bound": f"{nprob} problems, depth {depth}, <= 60 states each"}


LEVEL = "other"
EXPLANATION = __doc__

"""Obligation discharge, unit runner, evidence aggregation for pyvc."""
from __future__ import annotations
import json
import os
import subprocess
import tempfile
import time
import traceback

import z3

from .values import *  # noqa
from .state import State
from .engine import Engine, LoopSpec
from . import builtins as B

Z3_TIMEOUT_MS = int(os.environ.get("PYVC_Z3_TIMEOUT_MS", "20000"))
CVC5_TIMEOUT_MS = int(os.environ.get("PYVC_CVC5_TIMEOUT_MS", "40000"))

MAX_OPEN_PER_UNIT = int(os.environ.get("PYVC_MAX_OPEN_PER_UNIT", "3"))
IMPLICIT_EXC = (KeyError, IndexError, AttributeError, UnboundLocalError, NameError, TypeError,
                ZeroDivisionError, StopIteration, ValueError, AssertionError)


class Unit:
    """One function under contract.

    Subclasses / instances provide:
      prop        property id
      name        unit id (unique)
      target()    -> the real function object (resolved at run time from the imported repo)
      configure(eng)               register callee contracts, loop specs, axioms
      setup(eng, st) -> (args, kwargs, ctx)   symbolic inputs; preconditions via st.assume
      post(eng, ctx, st, out)      add obligations with st.oblige(label, goal) for outcome `out`
      allowed_raises               exception classes that may escape (others: obligation False)
      replay(ctx, model) -> dict | None       concretise a counter-model on the real code
    """

    prop = "?"
    name = "?"
    allowed_raises = ()
    require_post = True    # vacuity guard: every normal exit must receive at least one obligation
    doc = ""
    kind = "unbounded"     # or "finite" (P(fin))

    def target(self):
        raise NotImplementedError

    def configure(self, eng):
        pass

    def setup(self, eng, st):
        raise NotImplementedError

    def post(self, eng, ctx, st, out):
        pass

    def replay(self, ctx, model, obligation):
        return None


def solve(pc, goal, axioms, want_model=True):
    """returns (verdict, solver, ms, model|None, reason)  verdict in discharged|failed|unknown"""
    t0 = time.time()
    s = z3.Solver()
    s.set("timeout", Z3_TIMEOUT_MS)
    for c in pc:
        s.add(c)
    for a in axioms:
        s.add(a)
    s.add(z3.Not(goal))
    r = s.check()
    ms = int((time.time() - t0) * 1000)
    if r == z3.unsat:
        return "discharged", "z3", ms, None, ""
    if r == z3.sat:
        return "failed", "z3", ms, s.model(), ""
    reason = s.reason_unknown()
    candidate = None
    try:
        candidate = s.model()      # z3's candidate model of an undecided (quantified) query: only believed after a native replay
    except Exception:  # noqa
        pass
    # z3 is seed-sensitive on quantified / nonlinear queries: small portfolio of restarts before giving up
    for seed in (1, 2, 3):
        s2 = z3.Solver()
        s2.set("timeout", max(3000, Z3_TIMEOUT_MS // 3))
        s2.set("random_seed", seed)
        s2.set("smt.random_seed", seed)
        for c in pc:
            s2.add(c)
        for a in axioms:
            s2.add(a)
        s2.add(z3.Not(goal))
        r2 = s2.check()
        if r2 == z3.unsat:
            return "discharged", f"z3(seed={seed})", int((time.time() - t0) * 1000), None, ""
        if r2 == z3.sat:
            return "failed", f"z3(seed={seed})", int((time.time() - t0) * 1000), s2.model(), ""
    # quantifier-free core: without the quantified background the query is decidable; unsat there is a proof (fewer
    # assumptions), sat there is only a *candidate* counter-model (it may violate a dropped axiom) for the native replay
    from .engine import _has_quantifier
    s3 = z3.Solver()
    s3.set("timeout", max(5000, Z3_TIMEOUT_MS // 2))
    for c in list(pc) + list(axioms):
        if not _has_quantifier(c):
            s3.add(c)
    s3.add(z3.Not(goal))
    r3 = s3.check()
    if r3 == z3.unsat:
        return "discharged", "z3(quantifier-free core)", int((time.time() - t0) * 1000), None, ""
    if r3 == z3.sat and candidate is None:
        try:
            candidate = s3.model()
        except Exception:  # noqa
            pass
    # cvc5 on z3's unknowns
    v2 = _cvc5(s)
    ms = int((time.time() - t0) * 1000)
    if v2 == "unsat":
        return "discharged", "cvc5", ms, None, ""
    if v2 == "sat":
        return "failed", "cvc5", ms, None, "cvc5 sat (no model extracted)"
    return "unknown", "z3+cvc5", ms, candidate, f"z3: {reason}; cvc5: {v2}"


def _cvc5(solver):
    try:
        smt = solver.to_smt2()
    except Exception as e:  # noqa
        return f"export failed: {e}"
    if "lambda" in smt:
        return "not exported (array lambda)"
    smt = "(set-logic ALL)\n" + smt
    try:
        with tempfile.NamedTemporaryFile("w", suffix=".smt2", delete=False) as f:
            f.write(smt)
            path = f.name
        try:
            out = subprocess.run(["/usr/bin/cvc5", "--lang=smt2", f"--tlimit={CVC5_TIMEOUT_MS}", path],
                                 capture_output=True, text=True, timeout=CVC5_TIMEOUT_MS / 1000 + 10)
            first = (out.stdout.strip().splitlines() or ["?"])[0]
            return first if first in ("sat", "unsat") else f"unknown ({first[:80]})"
        finally:
            os.unlink(path)
    except Exception as e:  # noqa
        return f"error: {e}"


def run_unit(unit):
    """returns a JSON-able result dict"""
    t0 = time.time()
    res = {"unit": unit.name, "property": unit.prop, "doc": unit.doc, "obligations": [], "status": "ok",
           "paths": 0, "functions": {}, "inlined": [], "assumed": [], "axioms": 0, "bounded": False,
           "kind": unit.kind}
    try:
        eng = Engine()
        unit.configure(eng)
        fn = unit.target()
        st = State()
        args, kwargs, ctx = unit.setup(eng, st)
        if not eng.feasible(st):
            res["status"] = "vacuous"
            res["error"] = "precondition unsatisfiable"
            return res
        npaths = 0
        vacuous_paths = 0
        outcomes = {}
        for s, out in eng.run(fn, st, args, kwargs):
            npaths += 1
            key = out[0] if out[0] != "raise" else "raise:" + out[1].cls.__name__
            outcomes[key] = outcomes.get(key, 0) + 1
            if out[0] == "raise" and not issubclass(out[1].cls, tuple(unit.allowed_raises)):
                s.oblige(f"no-unexpected-{out[1].cls.__name__}@{out[1].where}", z3.BoolVal(False))
            nbefore = len(s.obls)
            unit.post(eng, ctx, s, out)
            if out[0] == "return" and unit.require_post and len(s.obls) == nbefore:
                vacuous_paths += 1
            eng.sink(s)
        res["paths"] = npaths
        res["outcomes"] = outcomes
        # a loop specification written for the unit's own function that never matched a loop is a mistake in the contract
        # (wrong key): the loop would silently fall back to bounded unrolling
        own = f"{getattr(fn, '__module__', '?')}.{getattr(fn, '__qualname__', '?')}"
        tq = getattr(fn, "__qualname__", "?")
        stale = [k for k in eng.loops if k not in eng.loops_used and (k[0] == own or k[0] == tq or not k[0].startswith("unified_planning."))]
        if stale:
            res["status"] = "unsupported"
            res["error"] = f"loop specification(s) {stale} never matched a loop of the function under contract"
        if npaths == 0:
            res["status"] = "vacuous"
            res["error"] = "no feasible terminal path"
        elif vacuous_paths:
            res["status"] = "vacuous"
            res["error"] = f"{vacuous_paths} normal exit path(s) received no post-condition obligation"
        axioms = list(eng.axioms) + str_axioms()
        if getattr(eng, "uses_rnd", False):
            axioms += B.rnd_axioms()
        res["axioms"] = len(eng.axioms)
        res["functions"] = dict(eng.sources)
        res["inlined"] = sorted(eng.inlined)
        res["assumed"] = sorted(eng.assumed)
        res["bounded"] = bool(eng.bounded_used) or bool(getattr(unit, "bounded_by_construction", False))
        seen = set()
        n_bad = 0
        for (label, pc, goal, trace, tags) in eng.obligations:
            if n_bad >= MAX_OPEN_PER_UNIT:
                # the unit is already failed / undecided: the remaining obligations cannot change its verdict
                res["obligations"].append({"label": label, "verdict": "unknown", "solver": "skipped", "ms": 0, "path": "/".join(trace[-12:]),
                                           "tags": list(tags), "reason": f"not attempted: {n_bad} obligations of this unit are already open"})
                continue
            verdict, solver, ms, model, reason = solve(pc, goal, axioms)
            if verdict != "discharged":
                n_bad += 1
            ob = {"label": label, "verdict": verdict, "solver": solver, "ms": ms,
                  "path": "/".join(trace[-12:]), "tags": list(tags)}
            if reason:
                ob["reason"] = reason
            if verdict == "unknown" and (model is not None or getattr(unit, "replay_without_model", False)):
                # candidate counter-model of an undecided query: it counts only if it reproduces on the real code
                try:
                    rp = unit.replay(ctx, model, label)
                except Exception as e:  # noqa
                    rp = None
                    ob["replay_error"] = f"{type(e).__name__}: {e}"
                if rp is not None and rp.get("reproduced"):
                    verdict = ob["verdict"] = "failed"
                    ob["solver"] = solver + (" (candidate model, confirmed by native replay)" if model is not None else " (undecided by the solvers; the clause named by the obligation fails natively on a directed input)")
                    ob["replay"] = rp
                    ob["goal"] = str(z3.simplify(goal))[:400]
                model = None
            if verdict == "failed" and "replay" not in ob:
                ob["goal"] = str(z3.simplify(goal))[:400]
                if model is not None:
                    try:
                        ob["model"] = _model_summary(model)
                        rp = unit.replay(ctx, model, label)
                        if rp is not None:
                            ob["replay"] = rp
                    except Exception as e:  # noqa
                        ob["replay_error"] = f"{type(e).__name__}: {e}"
            res["obligations"].append(ob)
        mism = [o for o in res["obligations"] if ":frame-local:" in o["label"]]
        if mism:
            # the code has a shape the contract does not describe: nothing this unit says about it is trusted in either direction
            why = mism[0]["label"].split(":frame-local:", 1)[1].strip()
            for o in res["obligations"]:
                if o["verdict"] != "discharged":
                    o["verdict"] = "unknown"
                    o["solver"] = "none (contract does not match the code)"
                    o["reason"] = "contract/code mismatch: " + why
                    o.pop("replay", None)
                    o.pop("model", None)
            res["status"] = "unsupported"
            res["error"] = "contract/code mismatch: " + why
    except Unsupported as e:
        res["status"] = "unsupported"
        res["error"] = str(e)
    except Exception as e:  # noqa
        res["status"] = "crash"
        res["error"] = f"{type(e).__name__}: {e}"
        res["traceback"] = traceback.format_exc()[-3000:]
    res["wall_s"] = round(time.time() - t0, 3)
    return res


def _model_summary(model, limit=40):
    out = {}
    for d in model.decls()[:limit]:
        try:
            out[d.name()] = str(model[d])[:120]
        except Exception:  # noqa
            pass
    return out

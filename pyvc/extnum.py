"""Extended numbers: python values that are an `int`, a `Fraction`, or one of the three non-finite floats
(`float("inf")`, `-float("inf")`, `float("nan")`) -- the mixture the interval arithmetic of the type checker computes with.

A symbolic extended number is a pair (kind, value):
    kind 0 = int (finite)   1 = Fraction (finite)   2 = -inf   3 = +inf   4 = nan          value : Real (meaningful for 0/1)
Arithmetic, comparison, min/max follow CPython for exactly these operand classes:
  * int/Fraction with a float operand is float arithmetic (IEEE): inf + (-inf) = nan, 0 * inf = nan, nan is absorbing,
    every ordered comparison with nan is False, nan != nan;
  * min(items) / max(items) is the sequential scan `m = x if x < m else m` (so a leading nan is sticky and a later nan is skipped).
Finite floats never arise in the verified code (the only float literals are +-inf); an operation that would create one
(e.g. 1 / inf) is rejected as Unsupported.
"""
from __future__ import annotations
import ast
from fractions import Fraction

import z3

from .values import SV, SInt, SReal, SBool, Unsupported, fresh_name, zreal, T

K_INT, K_FRAC, K_NINF, K_PINF, K_NAN = 0, 1, 2, 3, 4


class SExt(SV):
    __slots__ = ("k", "v")

    def __init__(self, k, v):
        self.k = k if z3.is_expr(k) else z3.IntVal(k)
        self.v = v if z3.is_expr(v) else z3.RealVal(v)

    def __repr__(self):
        return f"SExt({z3.simplify(self.k)}, {z3.simplify(self.v)})"

    # predicates (z3 Bool)
    def finite(self):
        return self.k <= K_FRAC

    def isnan(self):
        return self.k == K_NAN

    def wf(self):
        return z3.And(self.k >= 0, self.k <= 4)


class _Ext(T):
    """type object for LoopSpec.types / fresh_of"""

    def fresh(self, name):
        return SExt(z3.Int(fresh_name(name + ".kind")), z3.Real(fresh_name(name + ".val")))

    def __repr__(self):
        return "Ext"


Ext = _Ext()


def is_extlike(x):
    return isinstance(x, SExt) or (isinstance(x, float))


def to_ext(x):
    if isinstance(x, SExt):
        return x
    if isinstance(x, bool):
        return SExt(K_INT, 1 if x else 0)
    if isinstance(x, int):
        return SExt(K_INT, x)
    if isinstance(x, Fraction):
        return SExt(K_FRAC, z3.RealVal(str(x)))
    if isinstance(x, SInt):
        return SExt(K_INT, z3.ToReal(x.z))
    if isinstance(x, SReal):
        return SExt(K_FRAC, x.z)
    if isinstance(x, float):
        if x != x:
            return SExt(K_NAN, 0)
        if x == float("inf"):
            return SExt(K_PINF, 0)
        if x == float("-inf"):
            return SExt(K_NINF, 0)
        raise Unsupported(f"finite float {x!r}")
    return None


def ite(g, a, b):
    return SExt(z3.If(g, a.k, b.k), z3.If(g, a.v, b.v))


def _sign(a):
    """-1 / 0 / +1 as a z3 Int for a non-nan extended number"""
    return z3.If(a.k == K_NINF, -1, z3.If(a.k == K_PINF, 1, z3.If(a.v > 0, 1, z3.If(a.v < 0, -1, 0))))


def neg(a):
    return SExt(z3.If(a.k == K_NINF, K_PINF, z3.If(a.k == K_PINF, K_NINF, a.k)), -a.v)


def add(a, b):
    nan = z3.Or(a.k == K_NAN, b.k == K_NAN, z3.And(a.k == K_PINF, b.k == K_NINF), z3.And(a.k == K_NINF, b.k == K_PINF))
    pinf = z3.Or(a.k == K_PINF, b.k == K_PINF)
    ninf = z3.Or(a.k == K_NINF, b.k == K_NINF)
    k = z3.If(nan, K_NAN, z3.If(pinf, K_PINF, z3.If(ninf, K_NINF, z3.If(z3.Or(a.k == K_FRAC, b.k == K_FRAC), K_FRAC, K_INT))))
    return SExt(k, a.v + b.v)


def sub(a, b):
    return add(a, neg(b))


def mul(a, b):
    fin = z3.And(a.k <= K_FRAC, b.k <= K_FRAC)
    sa, sb = _sign(a), _sign(b)
    nan = z3.Or(a.k == K_NAN, b.k == K_NAN, z3.And(z3.Not(fin), z3.Or(sa == 0, sb == 0)))
    k = z3.If(fin, z3.If(z3.Or(a.k == K_FRAC, b.k == K_FRAC), K_FRAC, K_INT),
              z3.If(nan, K_NAN, z3.If(sa * sb > 0, K_PINF, K_NINF)))
    return SExt(k, a.v * b.v)


def _rank(a):
    return z3.If(a.k == K_NINF, -1, z3.If(a.k == K_PINF, 1, 0))


def lt(a, b):
    ra, rb = _rank(a), _rank(b)
    return z3.And(a.k != K_NAN, b.k != K_NAN, z3.Or(ra < rb, z3.And(ra == 0, rb == 0, a.v < b.v)))


def le(a, b):
    ra, rb = _rank(a), _rank(b)
    return z3.And(a.k != K_NAN, b.k != K_NAN, z3.Or(ra < rb, z3.And(ra == rb, z3.Or(ra != 0, a.v <= b.v))))


def eq(a, b):
    ra, rb = _rank(a), _rank(b)
    return z3.And(a.k != K_NAN, b.k != K_NAN, ra == rb, z3.Or(ra != 0, a.v == b.v))


def binop(op, a, b):
    """a, b: SExt.  returns SExt"""
    if isinstance(op, ast.Add):
        return add(a, b)
    if isinstance(op, ast.Sub):
        return sub(a, b)
    if isinstance(op, ast.Mult):
        return mul(a, b)
    raise Unsupported(f"operator {type(op).__name__} on extended numbers (non-finite floats)")


def compare(op, a, b):
    if isinstance(op, ast.Lt):
        return lt(a, b)
    if isinstance(op, ast.LtE):
        return le(a, b)
    if isinstance(op, ast.Gt):
        return lt(b, a)
    if isinstance(op, ast.GtE):
        return le(b, a)
    if isinstance(op, ast.Eq):
        return eq(a, b)
    if isinstance(op, ast.NotEq):
        return z3.Not(eq(a, b))
    raise Unsupported("comparison on extended numbers")


def minmax(items, is_min):
    m = items[0]
    for x in items[1:]:
        m = ite(lt(x, m) if is_min else lt(m, x), x, m)
    return m


def simplify(a):
    return SExt(z3.simplify(a.k), z3.simplify(a.v))

"""Execution state of the symbolic executor."""
from __future__ import annotations
import z3
from .values import Loc, Rec, CList, Unsupported


class Frame:
    __slots__ = ("vars", "globals", "fname", "cells")

    def __init__(self, vars, globals_, fname, cells=None):
        self.vars = vars          # name -> value   (locals)
        self.globals = globals_   # real module globals (concrete python objects)
        self.fname = fname
        self.cells = cells or {}  # closure variables: name -> value

    def copy(self):
        return Frame(dict(self.vars), self.globals, self.fname, self.cells)


class State:
    """One symbolic path."""

    __slots__ = ("pc", "heap", "frames", "ghost", "trace", "obls", "depth", "tags")

    def __init__(self):
        self.pc = ()        # tuple of z3 Bool
        self.heap = {}      # Loc.id -> content (Rec | CList | SSeq | SMap | SSet | ...)
        self.frames = []    # call stack
        self.ghost = {}     # free-form ghost state for contracts
        self.trace = ()     # branch decisions ("L123:T", ...)
        self.obls = ()      # obligations raised on this path: (label, pc, goal)
        self.depth = 0
        self.tags = ()      # e.g. ("bounded(arity<=3)",)

    def fork(self):
        s = State.__new__(State)
        s.pc = self.pc
        s.heap = dict(self.heap)
        s.frames = [f.copy() for f in self.frames]
        s.ghost = dict(self.ghost)
        s.trace = self.trace
        s.obls = self.obls
        s.depth = self.depth
        s.tags = self.tags
        return s

    # -- path condition
    def assume(self, *conds):
        for c in conds:
            c = c.z if hasattr(c, "z") else c
            if isinstance(c, bool):
                c = z3.BoolVal(c)
            if z3.is_true(c):
                continue
            self.pc = self.pc + (c,)
        return self

    def note(self, s):
        self.trace = self.trace + (s,)
        return self

    def oblige(self, label, goal):
        goal = goal.z if hasattr(goal, "z") else goal
        if isinstance(goal, bool):
            goal = z3.BoolVal(goal)
        o = (label, self.pc, goal, self.trace)
        self.obls = self.obls + (o,)
        # an obligation is owed from the moment it is raised: it is registered with the engine at once, so that it cannot be lost
        # when the path that raised it is later cut (no feasible alternative, unrolling bound, unsupported construct further on)
        if State.on_oblige is not None:
            State.on_oblige(o, self.tags)
        return self

    on_oblige = None

    # -- frames
    @property
    def frame(self) -> Frame:
        return self.frames[-1]

    # -- heap
    def alloc(self, content, kind="obj") -> Loc:
        l = Loc(kind)
        self.heap[l.id] = content
        return l

    def load(self, loc: Loc):
        try:
            return self.heap[loc.id]
        except KeyError:
            raise Unsupported(f"dangling location {loc}")

    def store(self, loc: Loc, content):
        self.heap[loc.id] = content

    def getfield(self, loc: Loc, name):
        r = self.load(loc)
        if not isinstance(r, Rec):
            raise Unsupported(f"field {name} of non-record {r!r}")
        return r.fields[name]

    def setfield(self, loc: Loc, name, v):
        r = self.load(loc)
        self.store(loc, r.set(name, v))

"""Models of Python built-ins, operators and containers for the pyvc executor."""
from __future__ import annotations
import ast
import builtins as _bi
import collections
import enum
import inspect
import itertools
import types
import typing
from fractions import Fraction

import z3

from .values import *  # noqa
from .values import _Int, _Bool, _Real, _Str
from . import extnum as X
from . import segstr as SG
import math

_handlers = {}


def lookup(f):
    try:
        return _handlers.get(f)
    except TypeError:
        return None


def builtin(*fs):
    def deco(h):
        for f in fs:
            _handlers[f] = h
        return h
    return deco


def install(engine):
    pass


# ------------------------------------------------------------------------------ UF helpers
_ufs = {}


def _uf(name, *sorts):
    key = (name,) + tuple(s.name() if hasattr(s, "name") else str(s) for s in sorts)
    f = _ufs.get(key)
    if f is None:
        f = z3.Function(name, *sorts)
        _ufs[key] = f
    return f


def uf_value(eng, st, base, argzs, argsorts, resT):
    """value of type resT defined by uninterpreted functions named `base` applied to argzs"""
    if isinstance(resT, (types.FunctionType, types.LambdaType)):
        raise Unsupported("callable field model must be applied by caller")
    if isinstance(resT, Seq):
        arr = _uf(base + ".arr", *argsorts, z3.ArraySort(z3.IntSort(), resT.elem.z3sort()))(*argzs)
        n = _uf(base + ".len", *argsorts, z3.IntSort())(*argzs)
        st.assume(n >= 0)
        return SSeq(resT.elem, arr, n)
    if isinstance(resT, Opt):
        isnone = _uf(base + ".isnone", *argsorts, z3.BoolSort())(*argzs)
        return SUnion([(isnone, None), (z3.Not(isnone), uf_value(eng, st, base, argzs, argsorts, resT.t))])
    if isinstance(resT, Union):
        tag = _uf(base + ".tag", *argsorts, z3.IntSort())(*argzs)
        alts = []
        n = len(resT.ts)
        for i, t in enumerate(resT.ts):
            g = (tag <= 0) if i == 0 else ((tag >= i) if i == n - 1 else (tag == i))
            alts.append((g, None if t is None else uf_value(eng, st, f"{base}.u{i}", argzs, argsorts, t)))
        return SUnion(alts)
    if isinstance(resT, Set):
        has = _uf(base + ".has", *argsorts, z3.ArraySort(resT.k.z3sort(), z3.BoolSort()))(*argzs)
        return SSet(resT.k, has)
    if isinstance(resT, Map):
        has = _uf(base + ".has", *argsorts, z3.ArraySort(resT.k.z3sort(), z3.BoolSort()))(*argzs)
        val = _uf(base + ".val", *argsorts, z3.ArraySort(resT.k.z3sort(), resT.v.z3sort()))(*argzs)
        if getattr(resT, "ordered", False):
            karr = _uf(base + ".keys.arr", *argsorts, z3.ArraySort(z3.IntSort(), resT.k.z3sort()))(*argzs)
            kn = _uf(base + ".keys.len", *argsorts, z3.IntSort())(*argzs)
            idx = _uf(base + ".idx", *argsorts, z3.ArraySort(resT.k.z3sort(), z3.IntSort()))(*argzs)
            m = SMap(resT.k, resT.v, has, val, SSeq(resT.k, karr, kn), idx)
            st.assume(kn >= 0)
            assume_keys_inv(st, m)
            return m
        return SMap(resT.k, resT.v, has, val)
    if isinstance(resT, Tup):
        return tuple(uf_value(eng, st, f"{base}.{i}", argzs, argsorts, t) for i, t in enumerate(resT.ts))
    if isinstance(resT, Const):
        return resT.v
    f = _uf(base, *argsorts, resT.z3sort())
    return resT.wrap(f(*argzs))


def field_uf(eng, st, obj, name):
    t = obj.t
    ft = t.fields[name]
    if callable(ft) and not isinstance(ft, T):
        return ft(eng, st, obj)
    return uf_value(eng, st, f"{t.name}.{name}", [obj.z], [t.z3sort()], ft)


def observer_uf(eng, st, obj, name, argTs, resT, args):
    t = obj.t
    if len(args) != len(argTs):
        raise Unsupported(f"observer {t.name}.{name} arity")
    zs = [obj.z] + [to_z3(a, at) for a, at in zip(args, argTs)]
    sorts = [t.z3sort()] + [at.z3sort() for at in argTs]
    return uf_value(eng, st, f"{t.name}.{name}()", zs, sorts, resT)


# --------------------------------------------------------------------- ordered-key ghost
def assume_keys_inv(st, c):
    """ghost invariant of ordered maps/sets: keys[0..n) are exactly the members, distinct"""
    j = z3.Int(fresh_name("j"))
    k = z3.Const(fresh_name("k"), c.tk.z3sort())
    keys, idx, has = c.keys, c.idx, c.has
    st.assume(z3.ForAll([j], z3.Implies(z3.And(0 <= j, j < keys.n),
                                        z3.And(z3.Select(has, z3.Select(keys.arr, j)),
                                               z3.Select(idx, z3.Select(keys.arr, j)) == j))))
    st.assume(z3.ForAll([k], z3.Implies(z3.Select(has, k),
                                        z3.And(0 <= z3.Select(idx, k), z3.Select(idx, k) < keys.n,
                                               z3.Select(keys.arr, z3.Select(idx, k)) == k))))


def keys_inv_formulas(c):
    j = z3.Int(fresh_name("j"))
    k = z3.Const(fresh_name("k"), c.tk.z3sort())
    keys, idx, has = c.keys, c.idx, c.has
    return [z3.ForAll([j], z3.Implies(z3.And(0 <= j, j < keys.n),
                                      z3.And(z3.Select(has, z3.Select(keys.arr, j)),
                                             z3.Select(idx, z3.Select(keys.arr, j)) == j))),
            z3.ForAll([k], z3.Implies(z3.Select(has, k),
                                      z3.And(0 <= z3.Select(idx, k), z3.Select(idx, k) < keys.n,
                                             z3.Select(keys.arr, z3.Select(idx, k)) == k)))]


def _insert_key(eng, st, c, k):
    """insert key into ordered container; forks on presence.  yields (st, new_keys, new_idx)"""
    if c.keys is None:
        yield st, None, None
        return
    kz = to_z3(k, c.tk)
    for s, present in eng.branch(st, z3.Select(c.has, kz), "haskey"):
        if present:
            yield s, c.keys, c.idx
        else:
            yield s, c.keys.append(c.tk.wrap(kz)), z3.Store(c.idx, kz, c.keys.n)


# ----------------------------------------------------------------------------- identity / eq
def identical(eng, st, a, b):
    if a is None or b is None:
        if a is None and b is None:
            return True
        o = b if a is None else a
        if isinstance(o, SUnion):
            return o.is_none()
        if isinstance(o, SRef) and getattr(o.t, "null", None) is not None:
            return SBool(o.z == o.t.null)
        return False
    if isinstance(a, SUnion) or isinstance(b, SUnion):
        # compare alternatives pairwise
        aa = a.alts if isinstance(a, SUnion) else [(z3.BoolVal(True), a)]
        bb = b.alts if isinstance(b, SUnion) else [(z3.BoolVal(True), b)]
        terms = []
        for ga, va in aa:
            for gb, vb in bb:
                r = identical(eng, st, va, vb)
                terms.append(z3.And(ga, gb, zbool(r)))
        return SBool(z3.Or(terms))
    if isinstance(a, SRef) and isinstance(b, SRef):
        if a.t.z3sort() != b.t.z3sort():
            return False
        return SBool(a.z == b.z)
    if isinstance(a, Loc) and isinstance(b, Loc):
        return a.id == b.id
    if isinstance(a, SEnum) or isinstance(b, SEnum):
        e = a if isinstance(a, SEnum) else b
        o = b if e is a else a
        if isinstance(o, SEnum) or (isinstance(o, enum.Enum) and o in e.t.consts):
            return SBool(e.z == to_z3(o, e.t))
        return False
    if isinstance(a, SBool) or isinstance(b, SBool):
        if isinstance(a, (SBool, bool)) and isinstance(b, (SBool, bool)):
            return SBool(zbool(a) == zbool(b))
        return False
    if isinstance(a, SV) or isinstance(b, SV):
        if type(a) is type(b) and hasattr(a, "z"):
            return SBool(a.z == b.z)
        return False
    return a is b


def equal(eng, st, a, b):
    """python `==` for values without user-defined __eq__; returns bool | SBool | None (unknown)"""
    if a is None or b is None:
        o = b if a is None else a
        if isinstance(o, SRef) and getattr(o.t, "null", None) is not None:
            return SBool(o.z == o.t.null)
        return a is None and b is None
    if isinstance(a, SG.SegStr) or isinstance(b, SG.SegStr):
        sa, sb = (a, b) if isinstance(a, SG.SegStr) else (b, a)
        if isinstance(sb, str):
            return SG.equals_literal(sa, sb)
        if isinstance(sb, SG.SegStr) and sb.concrete() is not None:
            return SG.equals_literal(sa, sb.concrete())
        if sb is None or not isinstance(sb, (SG.SegStr, SStr)):
            return False
        raise Unsupported("equality of two symbolic texts")
    if X.is_extlike(a) or X.is_extlike(b):
        if not isinstance(a, SV) and not isinstance(b, SV):
            return a == b
        ea, eb = X.to_ext(a), X.to_ext(b)
        if ea is None or eb is None:
            return False
        return SBool(X.eq(ea, eb))
    if isinstance(a, (bool, SBool)) and isinstance(b, (bool, SBool)):
        if isinstance(a, bool) and isinstance(b, bool):
            return a == b
        return SBool(zbool(a) == zbool(b))
    num = (int, Fraction, SInt, SReal, bool)
    if isinstance(a, num) and isinstance(b, num):
        if not isinstance(a, SV) and not isinstance(b, SV):
            return a == b
        x, y, _ = num_pair(a, b)
        return SBool(x == y)
    if isinstance(a, (SBool,)) and isinstance(b, num) or isinstance(b, SBool) and isinstance(a, num):
        # True == 1 in python
        x = z3.If(zbool(a), 1, 0) if isinstance(a, (SBool, bool)) else None
        y = z3.If(zbool(b), 1, 0) if isinstance(b, (SBool, bool)) else None
        xa, ya, _ = num_pair(SInt(x) if x is not None else a, SInt(y) if y is not None else b)
        return SBool(xa == ya)
    if isinstance(a, (str, SStr)) and isinstance(b, (str, SStr)):
        if isinstance(a, str) and isinstance(b, str):
            return a == b
        return SBool(to_z3(a, Str) == to_z3(b, Str))
    if isinstance(a, (SEnum, enum.Enum)) and isinstance(b, (SEnum, enum.Enum)):
        if isinstance(a, enum.Enum) and isinstance(b, enum.Enum):
            return a == b
        e = a if isinstance(a, SEnum) else b
        o = b if e is a else a
        if isinstance(o, SEnum):
            return SBool(e.z == o.z) if o.t is e.t else False
        return SBool(e.z == e.t.consts[o]) if o in e.t.consts else False
    if isinstance(a, SRef) and isinstance(b, SRef):
        if a.t.z3sort() != b.t.z3sort():
            return False
        return SBool(a.z == b.z)
    if isinstance(a, tuple) and isinstance(b, tuple):
        if len(a) != len(b):
            return False
        parts = [equal(eng, st, x, y) for x, y in zip(a, b)]
        if any(p is None for p in parts):
            return None
        if all(isinstance(p, bool) for p in parts):
            return all(parts)
        return SBool(z3.And([zbool(p) for p in parts]))
    if isinstance(a, Loc) and isinstance(b, Loc) and a.id == b.id:
        return True
    fa, fb = _family(a), _family(b)
    if fa is not None and fb is not None and fa != fb:
        return False
    if isinstance(a, SV) != isinstance(b, SV):
        # symbolic vs concrete of different families
        if isinstance(a, (SRef, SEnum, SStr)) or isinstance(b, (SRef, SEnum, SStr)):
            return False
    if not isinstance(a, (SV, Loc, Struct)) and not isinstance(b, (SV, Loc, Struct)):
        try:
            return bool(a == b)
        except Exception:
            return None
    return None


def _family(v):
    if isinstance(v, (bool, int, Fraction, SBool, SInt, SReal)):
        return "num"
    if isinstance(v, (str, SStr)):
        return "str"
    if isinstance(v, (SEnum, enum.Enum)):
        return "enum"
    if isinstance(v, SRef):
        return "ref:" + v.t.name
    if isinstance(v, tuple):
        return "tuple"
    return None


def compare(eng, st, op, a, b, node):
    if isinstance(op, (ast.Eq, ast.NotEq)):
        neg = isinstance(op, ast.NotEq)
        r = equal(eng, st, a, b)
        if r is None:
            # user-defined __eq__ on modelled objects
            for s, r2 in eng.dunder(st, a, "__eq__", [b], node):
                if isinstance(r2, ExcVal):
                    yield s, r2
                elif neg:
                    bv = eng.as_bool_value(s, r2)
                    yield s, (not bv) if isinstance(bv, bool) else SBool(z3.Not(zbool(bv)))
                else:
                    yield s, r2
            return
        if isinstance(r, bool):
            yield st, (not r if neg else r)
        else:
            yield st, SBool(z3.Not(r.z) if neg else r.z)
        return
    if isinstance(op, (ast.Lt, ast.LtE, ast.Gt, ast.GtE)):
        if isinstance(a, SBool):
            a = SInt(z3.If(a.z, 1, 0))
        if isinstance(b, SBool):
            b = SInt(z3.If(b.z, 1, 0))
        num = (int, Fraction, SInt, SReal, bool)
        if X.is_extlike(a) or X.is_extlike(b):
            if not isinstance(a, SV) and not isinstance(b, SV):
                yield st, {ast.Lt: a < b, ast.LtE: a <= b, ast.Gt: a > b, ast.GtE: a >= b}[type(op)]
                return
            ea, eb = X.to_ext(a), X.to_ext(b)
            if ea is None or eb is None:
                raise Unsupported("ordering of an extended number with a non-number")
            yield st, SBool(X.compare(op, ea, eb))
            return
        if isinstance(a, num) and isinstance(b, num):
            f = {ast.Lt: lambda x, y: x < y, ast.LtE: lambda x, y: x <= y,
                 ast.Gt: lambda x, y: x > y, ast.GtE: lambda x, y: x >= y}[type(op)]
            if not isinstance(a, SV) and not isinstance(b, SV):
                yield st, f(a, b)
            else:
                x, y, _ = num_pair(a, b)
                yield st, SBool(f(x, y))
            return
        if isinstance(a, tuple) and isinstance(b, tuple):
            raise Unsupported("tuple ordering")
        name = {ast.Lt: "__lt__", ast.LtE: "__le__", ast.Gt: "__gt__", ast.GtE: "__ge__"}[type(op)]
        yield from eng.dunder(st, a, name, [b], node)
        return
    if isinstance(op, (ast.In, ast.NotIn)):
        neg = isinstance(op, ast.NotIn)
        for s, r in contains(eng, st, b, a, node):
            if isinstance(r, ExcVal):
                yield s, r
            elif isinstance(r, bool):
                yield s, (not r if neg else r)
            else:
                yield s, SBool(z3.Not(r.z) if neg else r.z)
        return
    raise Unsupported(f"comparison {type(op).__name__}")


def contains(eng, st, cont, x, node=None):
    c = eng.deref(st, cont)
    if isinstance(c, SG.SegStr):
        if not isinstance(x, str):
            raise Unsupported("`in` on a symbolic text with a non-literal needle")
        yield st, SG.contains_literal(c, x)
        return
    if isinstance(c, SUnion):
        for s, cc in eng.force(st, c):
            yield from contains(eng, s, cc, x, node)
        return
    if isinstance(x, SUnion):
        for s, xx in eng.force(st, x):
            yield from contains(eng, s, c, xx, node)
        return
    if isinstance(c, IterView) and getattr(c, "values_of", None) is not None:
        m = c.values_of
        k = z3.Const(fresh_name("k"), m.tk.z3sort())
        try:
            xz = to_z3(x, m.tv)
        except Exception:  # noqa
            yield st, False
            return
        yield st, SBool(z3.Exists([k], z3.And(z3.Select(m.has, k), z3.Select(m.val, k) == xz)))
        return
    if isinstance(c, (SMap, SSet)):
        try:
            yield st, c.contains(x)
        except Unsupported:
            yield st, False
        return
    if isinstance(c, SSeq):
        j = z3.Int(fresh_name("j"))
        try:
            xz = to_z3(x, c.te)
        except Unsupported:
            yield st, False
            return
        yield st, SBool(z3.Exists([j], z3.And(0 <= j, j < c.n, z3.Select(c.arr, j) == xz)))
        return
    if isinstance(c, CList):
        items = c.items
    elif isinstance(c, CDict):
        items = list(c.items.keys())
    elif isinstance(c, (tuple, list, set, frozenset, dict)):
        items = list(c)
    elif isinstance(c, type) and issubclass(c, enum.Enum):
        items = list(c)
    elif isinstance(c, (Loc, SRef)):
        yield from eng.dunder(st, c, "__contains__", [x], node)
        return
    elif isinstance(c, str) and isinstance(x, str):
        yield st, x in c
        return
    else:
        raise Unsupported(f"`in` on {c!r}")
    terms = []
    for it in items:
        r = equal(eng, st, x, it)
        if r is None:
            raise Unsupported(f"`in` needs __eq__ of {x!r} vs {it!r}")
        if r is True:
            yield st, True
            return
        if r is False:
            continue
        terms.append(r.z)
    yield st, (SBool(z3.Or(terms)) if terms else False)


# ----------------------------------------------------------------------------- arithmetic
def binop(eng, st, op, a, b, node):
    num = (int, Fraction, SInt, SReal)
    if isinstance(a, bool) and not isinstance(b, SV):
        pass
    if isinstance(a, SBool) and isinstance(b, num + (SBool,)) and not isinstance(op, (ast.BitAnd, ast.BitOr)):
        a = SInt(z3.If(a.z, 1, 0))
    if isinstance(b, SBool) and isinstance(a, num) and not isinstance(op, (ast.BitAnd, ast.BitOr)):
        b = SInt(z3.If(b.z, 1, 0))
    if X.is_extlike(a) or X.is_extlike(b):
        if not isinstance(a, SV) and not isinstance(b, SV):
            try:
                r = {ast.Add: lambda: a + b, ast.Sub: lambda: a - b, ast.Mult: lambda: a * b}[type(op)]()
            except KeyError:
                raise Unsupported(f"binop {type(op).__name__} on floats")
            if isinstance(r, float) and r == r and r not in (float("inf"), float("-inf")):
                raise Unsupported("finite float arithmetic")
            yield st, r
            return
        ea, eb = X.to_ext(a), X.to_ext(b)
        if a is None or b is None:
            yield st, ExcVal(TypeError, (), eng.where(st, node))
            return
        if ea is None or eb is None:
            raise Unsupported(f"binop on extended number and {a!r} / {b!r}")
        yield st, X.simplify(X.binop(op, ea, eb))
        return
    if isinstance(a, num + (bool,)) and isinstance(b, num + (bool,)):
        if not isinstance(a, SV) and not isinstance(b, SV):
            try:
                r = {ast.Add: lambda: a + b, ast.Sub: lambda: a - b, ast.Mult: lambda: a * b,
                     ast.Div: lambda: _cdiv(a, b), ast.FloorDiv: lambda: a // b, ast.Mod: lambda: a % b,
                     ast.Pow: lambda: a ** b}[type(op)]()
            except ZeroDivisionError:
                yield st, ExcVal(ZeroDivisionError, (), eng.where(st, node))
                return
            except KeyError:
                raise Unsupported(f"binop {type(op).__name__}")
            yield st, r
            return
        x, y, real = num_pair(a, b)
        W = SReal if real else SInt
        if isinstance(op, ast.Add):
            yield st, W(x + y)
        elif isinstance(op, ast.Sub):
            yield st, W(x - y)
        elif isinstance(op, ast.Mult):
            yield st, W(x * y)
        elif isinstance(op, (ast.Div, ast.FloorDiv, ast.Mod)):
            for s, zero in eng.branch(st, y == 0, f"div0@{eng.line(st, node)}"):
                if zero:
                    yield s, ExcVal(ZeroDivisionError, (), eng.where(s, node))
                elif isinstance(op, ast.Div):
                    if real:
                        yield s, SReal(x / y)      # Fraction / Fraction: exact
                    else:
                        yield s, FloatVal(SReal(z3.ToReal(x) / z3.ToReal(y)))   # int / int -> float
                elif isinstance(op, ast.FloorDiv):
                    if real:
                        yield s, SInt(z3.ToInt(x / y))
                    else:
                        yield s, SInt(z3.ToInt(z3.ToReal(x) / z3.ToReal(y)))
                else:
                    if real:
                        q = z3.ToReal(z3.ToInt(x / y))
                        yield s, SReal(x - q * y)
                    else:
                        # python: result has the sign of the divisor
                        fl = z3.ToInt(z3.ToReal(x) / z3.ToReal(y))
                        yield s, SInt(x - fl * y)
        else:
            raise Unsupported(f"binop {type(op).__name__} on numbers")
        return
    if isinstance(a, FloatVal) or isinstance(b, FloatVal):
        raise Unsupported("float arithmetic")
    # sequences
    ca, cb = eng.deref(st, a), eng.deref(st, b)
    if isinstance(op, ast.Add):
        if isinstance(ca, tuple) and isinstance(cb, tuple):
            yield st, ca + cb
            return
        if isinstance(ca, CList) and isinstance(cb, CList):
            yield st, st.alloc(CList(ca.items + cb.items), "list")
            return
        if isinstance(ca, (CList, SSeq, tuple)) and isinstance(cb, (CList, SSeq, tuple)):
            r = seq_concat(eng, st, as_sseq(eng, st, ca), as_sseq(eng, st, cb))
            yield st, (st.alloc(r, "list") if isinstance(a, Loc) else r)
            return
        if isinstance(a, str) and isinstance(b, str):
            yield st, a + b
            return
        if isinstance(a, SG.SegStr) or isinstance(b, SG.SegStr):
            yield st, SG.concat([a, b])
            return
        if isinstance(a, (str, SStr)) and isinstance(b, (str, SStr)):
            yield st, Str.fresh("concat")
            return
    if isinstance(op, (ast.BitOr, ast.BitAnd, ast.Sub)) and isinstance(ca, (SSet, frozenset, set)) and isinstance(cb, (SSet, frozenset, set)):
        sa, sb = as_sset(eng, st, ca, cb), as_sset(eng, st, cb, ca)
        k = z3.Const(fresh_name("k"), sa.tk.z3sort())
        if isinstance(op, ast.BitOr):
            has = z3.Lambda([k], z3.Or(z3.Select(sa.has, k), z3.Select(sb.has, k)))
        elif isinstance(op, ast.BitAnd):
            has = z3.Lambda([k], z3.And(z3.Select(sa.has, k), z3.Select(sb.has, k)))
        else:
            has = z3.Lambda([k], z3.And(z3.Select(sa.has, k), z3.Not(z3.Select(sb.has, k))))
        r = SSet(sa.tk, has)
        if isinstance(op, ast.BitOr):
            # cardinality facts of a union, stated on the same uninterpreted `card` that len() uses (extensionality between a lambda and a
            # constant array is beyond the solvers): empty iff both are empty; at least the larger, at most the sum
            asort = z3.ArraySort(sa.tk.z3sort(), z3.BoolSort())
            cardf = _uf(f"card<{sa.tk.z3sort()}>", asort, z3.IntSort())
            ca_, cb_, cr_ = cardf(sa.has), cardf(sb.has), cardf(has)
            st.assume(ca_ >= 0, cb_ >= 0, (cr_ == 0) == z3.And(ca_ == 0, cb_ == 0), cr_ >= ca_, cr_ >= cb_, cr_ <= ca_ + cb_)
        yield st, (st.alloc(r, "set") if isinstance(a, Loc) else r)
        return
    if isinstance(op, (ast.BitAnd, ast.BitOr)) and isinstance(a, (bool, SBool)) and isinstance(b, (bool, SBool)):
        if isinstance(a, bool) and isinstance(b, bool):
            yield st, (a & b) if isinstance(op, ast.BitAnd) else (a | b)
        else:
            yield st, SBool((z3.And if isinstance(op, ast.BitAnd) else z3.Or)(zbool(a), zbool(b)))
        return
    if isinstance(op, ast.Mod) and isinstance(a, str) and isinstance(b, (str, int)) and not isinstance(b, SV):
        yield st, a % b
        return
    if isinstance(op, ast.Mod) and isinstance(a, (str, SStr)):
        yield st, Str.fresh("fmt")
        return
    name = {ast.Add: "__add__", ast.Sub: "__sub__", ast.Mult: "__mul__", ast.Div: "__truediv__",
            ast.FloorDiv: "__floordiv__", ast.BitAnd: "__and__", ast.BitOr: "__or__",
            ast.BitXor: "__xor__", ast.Mod: "__mod__"}.get(type(op))
    if name is None:
        raise Unsupported(f"binop {type(op).__name__}")
    yield from eng.dunder(st, a, name, [b], node)


class FloatVal(SV):
    """a python float produced by int/int: value = rnd(exact)"""
    __slots__ = ("exact",)

    def __init__(self, exact):
        self.exact = exact


def _cdiv(a, b):
    if isinstance(a, int) and isinstance(b, int):
        return a / b   # python float; concrete
    return a / b


def as_sseq(eng, st, c, te=None):
    c = eng.deref(st, c)
    if isinstance(c, SSeq):
        return c
    if isinstance(c, CList):
        items = list(c.items)
    elif isinstance(c, (tuple, list)):
        items = list(c)
    else:
        raise Unsupported(f"not a sequence: {c!r}")
    if te is None:
        for x in items:
            te = type_of(x)
            if te is not None:
                break
    if te is None:
        raise Unsupported("element type of empty concrete sequence unknown")
    return SSeq.of(te, items)


def as_sset(eng, st, c, other=None):
    c = eng.deref(st, c)
    if isinstance(c, SSet):
        return c
    tk = None
    other = eng.deref(st, other) if other is not None else None
    if isinstance(other, SSet):
        tk = other.tk
    items = list(c)
    if tk is None:
        for x in items:
            tk = type_of(x)
            break
    if tk is None:
        raise Unsupported("element type of empty concrete set unknown")
    s = SSet.empty(tk)
    for x in items:
        s = s.add(x)
    return s


def seq_concat(eng, st, a, b):
    if z3.is_int_value(b.n) and b.n.as_long() <= 8:
        r = a
        for i in range(b.n.as_long()):
            r = r.append(b.at(i))
        return r
    j = z3.Int(fresh_name("j"))
    arr = z3.Lambda([j], z3.If(j < a.n, z3.Select(a.arr, j), z3.Select(b.arr, j - a.n)))
    return SSeq(a.te, arr, a.n + b.n)


def concat_star(eng, st, parts):
    """[x, *seq, y] with symbolic-length pieces -> SSeq"""
    te = None
    for p in parts:
        if isinstance(p, engine_mod().StarSeq):
            te = p.seq.te
            break
    r = SSeq.of(te, [])
    for p in parts:
        if isinstance(p, engine_mod().StarSeq):
            r = seq_concat(eng, st, r, p.seq)
        else:
            r = r.append(p)
    return r


def engine_mod():
    from . import engine
    return engine


# ----------------------------------------------------------------------------- subscripting
def getitem(eng, st, obj, k, node):
    c = eng.deref(st, obj)
    if isinstance(c, SUnion):
        for s, cc in eng.force(st, c):
            yield from getitem(eng, s, cc, k, node)
        return
    if isinstance(k, SUnion):
        for s, kk in eng.force(st, k):
            yield from getitem(eng, s, c, kk, node)
        return
    if isinstance(c, SMap):
        kz = to_z3(k, c.tk)
        for s, ok in eng.branch(st, z3.Select(c.has, kz), f"key@{eng.line(st, node)}"):
            if ok:
                yield s, c.get(k)
            else:
                yield s, ExcVal(KeyError, (k,), eng.where(s, node))
        return
    if isinstance(c, SSeq):
        kz = zint(k)
        for s, ok in eng.branch(st, z3.And(kz >= -c.n, kz < c.n), f"idx@{eng.line(st, node)}"):
            if ok:
                if isinstance(k, int) and k >= 0:
                    yield s, c.at(k)
                else:
                    yield s, c.te.wrap(z3.Select(c.arr, z3.If(kz >= 0, kz, kz + c.n)))
            else:
                yield s, ExcVal(IndexError, (), eng.where(s, node))
        return
    if isinstance(c, CList) or isinstance(c, tuple):
        items = c.items if isinstance(c, CList) else c
        if isinstance(k, int):
            if -len(items) <= k < len(items):
                yield st, items[k]
            else:
                yield st, ExcVal(IndexError, (), eng.where(st, node))
            return
        if isinstance(k, SInt):
            for i in range(len(items)):
                if eng.feasible(st, k.z == i):
                    s = st.fork().assume(k.z == i)
                    yield s, items[i]
            if eng.feasible(st, z3.Or(k.z < 0, k.z >= len(items))):
                # negative indices folded into the error/other path conservatively
                raise Unsupported("symbolic index possibly out of concrete range")
            return
    if isinstance(c, CDict):
        if not isinstance(k, SV):
            if k in c.items:
                yield st, c.items[k]
            else:
                yield st, ExcVal(KeyError, (k,), eng.where(st, node))
            return
        # symbolic key against concrete keys
        vals = list(c.items.values())
        if vals and all(v is vals[0] for v in vals):
            conds = []
            for kk in c.items:
                r = equal(eng, st, k, kk)
                if r is True:
                    conds = [z3.BoolVal(True)]
                    break
                if r is not False and r is not None:
                    conds.append(zbool(r))
            anyk = z3.Or(conds) if conds else z3.BoolVal(False)
            for s, ok in eng.branch(st, anyk, f"key@{eng.line(st, node)}"):
                yield s, (vals[0] if ok else ExcVal(KeyError, (k,), eng.where(s, node)))
            return
        rest = []
        for kk, vv in c.items.items():
            r = equal(eng, st, k, kk)
            if r is False or r is None:
                continue
            cond = zbool(r)
            if eng.feasible(st, cond):
                s = st.fork().assume(cond)
                yield s, vv
            rest.append(z3.Not(cond))
        s = st.assume(*rest)
        if eng.feasible(s):
            yield s, ExcVal(KeyError, (k,), eng.where(s, node))
        return
    if isinstance(c, dict) and not _has_sym(k):
        if k in c:
            yield st, c[k]
        else:
            yield st, ExcVal(KeyError, (k,), eng.where(st, node))
        return
    if isinstance(c, dict) and isinstance(k, tuple):
        rest = []
        for kk, vv in c.items():
            r = equal(eng, st, k, kk)
            if r is False or r is None:
                continue
            cond = zbool(r)
            if eng.feasible(st, cond):
                yield st.fork().assume(cond), vv
            rest.append(z3.Not(cond))
        s = st.assume(*rest)
        if eng.feasible(s):
            yield s, ExcVal(KeyError, (k,), eng.where(s, node))
        return
    if isinstance(c, dict) and isinstance(k, SEnum):
        for kk, vv in c.items():
            if isinstance(kk, enum.Enum) and kk in k.t.consts and eng.feasible(st, k.z == k.t.consts[kk]):
                yield st.fork().assume(k.z == k.t.consts[kk]), vv
        others = [k.z != k.t.consts[kk] for kk in c if isinstance(kk, enum.Enum) and kk in k.t.consts]
        s = st.assume(*others)
        if eng.feasible(s):
            yield s, ExcVal(KeyError, (k,), eng.where(s, node))
        return
    if isinstance(c, (list, str)) and isinstance(k, int):
        try:
            yield st, c[k]
        except IndexError:
            yield st, ExcVal(IndexError, (), eng.where(st, node))
        return
    if c is typing.List or c is typing.Dict or c is typing.Optional or getattr(c, "__module__", "") == "typing":
        yield st, c
        return
    if isinstance(c, (Loc, SRef)) or isinstance(obj, Loc):
        yield from eng.dunder(st, obj, "__getitem__", [k], node)
        return
    raise Unsupported(f"subscript of {c!r} with {k!r}")


def _has_sym(k):
    if isinstance(k, (SV, Loc)):
        return True
    if isinstance(k, tuple):
        return any(_has_sym(x) for x in k)
    return False


def slice(eng, st, obj, lo, hi, step, node):
    c = eng.deref(st, obj)
    if step not in (None, 1):
        raise Unsupported("slice step")
    if isinstance(c, (CList, tuple)):
        items = list(c.items) if isinstance(c, CList) else list(c)
        if (lo is None or isinstance(lo, int)) and (hi is None or isinstance(hi, int)):
            r = items[lo:hi]
            yield st, (st.alloc(CList(r), "list") if isinstance(c, CList) else tuple(r))
            return
        c = as_sseq(eng, st, c)
    if isinstance(c, SSeq):
        loz = z3.IntVal(0) if lo is None else zint(lo)
        hiz = c.n if hi is None else zint(hi)
        # python clamps; we require 0 <= lo, hi <= n or negative literal handled simply
        loz = z3.If(loz < 0, z3.If(loz + c.n < 0, 0, loz + c.n), z3.If(loz > c.n, c.n, loz))
        hiz = z3.If(hiz < 0, z3.If(hiz + c.n < 0, 0, hiz + c.n), z3.If(hiz > c.n, c.n, hiz))
        j = z3.Int(fresh_name("j"))
        arr = z3.Lambda([j], z3.Select(c.arr, j + loz))
        n = z3.If(hiz > loz, hiz - loz, 0)
        r = SSeq(c.te, arr, z3.simplify(n))
        yield st, (st.alloc(r, "list") if isinstance(obj, Loc) else r)
        return
    raise Unsupported(f"slice of {c!r}")


# ----------------------------------------------------------------------------- iteration
def iterate(eng, st, v):
    """yields (st, python list of items | SSeq)"""
    if isinstance(v, SUnion):
        for s, vv in eng.force(st, v):
            yield from iterate(eng, s, vv)
        return
    c = eng.deref(st, v)
    if isinstance(c, CList):
        yield st, list(c.items)
    elif isinstance(c, (tuple, list)):
        yield st, list(c)
    elif isinstance(c, (frozenset, set)):
        yield st, sorted(c, key=repr)
    elif isinstance(c, dict):
        yield st, list(c.keys())
    elif isinstance(c, CDict):
        yield st, list(c.items.keys())
    elif isinstance(c, range):
        yield st, list(c)
    elif isinstance(c, SSeq):
        if z3.is_int_value(z3.simplify(c.n)):
            yield st, [c.at(i) for i in range(z3.simplify(c.n).as_long())]
        else:
            yield st, c
    elif isinstance(c, (SMap, SSet)):
        if c.keys is None:
            # unordered: iterate an arbitrary enumeration (ghost) of the members
            keys = Seq(c.tk).fresh("enum")
            idx = z3.Array(fresh_name("enum.idx"), c.tk.z3sort(), z3.IntSort())
            st.assume(keys.n >= 0)
            tmp = SSet(c.tk, c.has, keys, idx)
            assume_keys_inv(st, tmp)
            eng.__dict__.setdefault("_enum_idx", {})[id(keys)] = (keys, idx)     # position of each member in this ghost enumeration
            yield st, keys
        else:
            yield from iterate(eng, st, c.keys)
    elif isinstance(c, (ZipSeq, EnumSeq)) or getattr(c, "is_symbolic_sequence", False):
        yield st, c
    elif isinstance(c, SRef) and getattr(c.t, "iter_items", None) is not None:
        # an opaque reference standing for an (immutable) python list / tuple: its items are an uninterpreted sequence
        yield st, uf_value(eng, st, f"{c.t.name}.items", [c.z], [c.t.z3sort()], Seq(c.t.iter_items))
    elif isinstance(c, IterView):
        yield from c.items(eng, st)
    elif inspect.isclass(c) and issubclass(c, enum.Enum):
        yield st, list(c)
    elif isinstance(c, str):
        yield st, list(c)
    else:
        raise Unsupported(f"iteration over {c!r}")


class IterView:
    """lazy iterables: enumerate/zip/range/dict views over symbolic sequences"""

    def __init__(self, fn):
        self.items = fn


# ----------------------------------------------------------------------------- constructors
def make_set(eng, st, items, ordered=False):
    if all(not isinstance(x, (SV, Loc)) for x in items):
        yield st, st.alloc(CSet(items), "set")
        return
    tk = None
    for x in items:
        if isinstance(x, SV):
            tk = type_of(x)
            break
    if tk is None:
        raise Unsupported("set literal with non-describable symbolic elements")
    s = SSet.empty(tk, ordered)
    loc = st.alloc(s, "set")
    def go(i, s0):
        if i == len(items):
            yield s0, loc
            return
        for s1, r in container_call(eng, s0, loc, "add", [items[i]], {}):
            yield from go(i + 1, s1)
    yield from go(0, st)


class CSet:
    """heap content: python set of concrete hashables"""
    __slots__ = ("items",)

    def __init__(self, items):
        self.items = frozenset(items)


def make_dict(eng, st, pairs):
    if all(not isinstance(k, (SV, Loc)) for k, _ in pairs):
        yield st, st.alloc(CDict(pairs), "dict")
        return
    tk = type_of(pairs[0][0])
    tv = type_of(pairs[0][1])
    if tk is None or tv is None:
        raise Unsupported("dict literal with non-describable symbolic entries")
    loc = st.alloc(SMap.empty(tk, tv, ordered=True), "dict")
    def go(i, s0):
        if i == len(pairs):
            yield s0, loc
            return
        for s1, r in container_call(eng, s0, loc, "__setitem__", list(pairs[i]), {}):
            yield from go(i + 1, s1)
    yield from go(0, st)


def construct(eng, st, cls, args, kwargs, node):
    """call of a class object"""
    if issubclass(cls, BaseException):
        yield st, ExcVal(cls, tuple(args), "")
        return
    if issubclass(cls, tuple) and hasattr(cls, "_fields") and cls not in eng.class_models:  # namedtuple
        fields = dict(zip(cls._fields, args))
        fields.update(kwargs)
        yield st, Struct(cls, fields)
        return
    if cls in eng.class_models:
        yield from eng.class_models[cls](eng, st, args, kwargs)
        return
    mod = getattr(cls, "__module__", "")
    import dataclasses as _dc
    if mod.startswith("unified_planning") and _dc.is_dataclass(cls):
        try:
            inspect.getsource(cls.__init__)
            generated = False
        except (OSError, TypeError):
            generated = True
        if generated:
            # dataclass-generated __init__: fields in declaration order, defaults / default factories, then __post_init__
            flds = [f for f in _dc.fields(cls) if f.init]
            vals, args = {}, list(args)
            kwargs = dict(kwargs)
            if len(args) > len(flds):
                yield st, ExcVal(TypeError, (), eng.where(st, node) if node else "")
                return
            for i, f in enumerate(flds):
                if i < len(args):
                    vals[f.name] = args[i]
                elif f.name in kwargs:
                    vals[f.name] = kwargs.pop(f.name)
                elif f.default is not _dc.MISSING:
                    vals[f.name] = f.default
                elif f.default_factory is not _dc.MISSING:
                    d = f.default_factory()
                    vals[f.name] = st.alloc(CList([]), "list") if d == [] else (st.alloc(CDict({}), "dict") if d == {} else d)
                else:
                    yield st, ExcVal(TypeError, (), eng.where(st, node) if node else "")
                    return
            if kwargs:
                yield st, ExcVal(TypeError, (), eng.where(st, node) if node else "")
                return
            loc = st.alloc(Rec(cls, vals), cls.__name__)
            st.ghost["constructed"] = frozenset(st.ghost.get("constructed", frozenset())) | {loc.id}
            post = inspect.getattr_static(cls, "__post_init__", None)
            if isinstance(post, types.FunctionType):
                for s, r in eng.call(st, post, [loc], {}, node):
                    yield s, (r if isinstance(r, ExcVal) else loc)
            else:
                yield st, loc
            return
    if mod.startswith("unified_planning"):
        init = inspect.getattr_static(cls, "__init__", None)
        loc = st.alloc(Rec(cls, {}), cls.__name__)
        st.ghost["constructed"] = frozenset(st.ghost.get("constructed", frozenset())) | {loc.id}
        if isinstance(init, types.FunctionType):
            for s, r in eng.call(st, init, [loc] + list(args), kwargs, node):
                yield s, (r if isinstance(r, ExcVal) else loc)
        else:
            yield st, loc
        return
    raise Unsupported(f"construction of {cls!r}")


# ----------------------------------------------------------------------------- containers
def container_call(eng, st, target, name, args, kwargs, node=None):
    c = eng.deref(st, target)
    if isinstance(c, SG.SegStr):
        if name == "split" and len(args) == 1 and isinstance(args[0], str):
            yield st, st.alloc(CList(SG.split(c, args[0])), "list")
        elif name == "strip" and not args:
            yield st, SG.strip(c)
        elif name == "startswith" and len(args) == 1 and isinstance(args[0], str):
            yield st, SG.startswith(c, args[0])
        else:
            raise Unsupported(f"method {name} on a symbolic text")
        return
    isloc = isinstance(target, Loc)
    where = eng.where(st, node) if node is not None else ""

    def upd(s, newc):
        if not isloc:
            raise Unsupported(f"mutation {name} of immutable container")
        s.store(target, newc)

    # ---- maps
    if isinstance(c, SMap):
        if name == "get":
            k = args[0]
            d = args[1] if len(args) > 1 else kwargs.get("default")
            try:
                kz = to_z3(k, c.tk)
            except Unsupported:
                yield st, d
                return
            has = z3.Select(c.has, kz)
            yield st, SUnion([(has, c.get(k)), (z3.Not(has), d)])
            return
        if name == "__setitem__":
            k, v = args
            for s, keys, idx in _insert_key(eng, st, c, k):
                kz = to_z3(k, c.tk)
                upd(s, SMap(c.tk, c.tv, z3.Store(c.has, kz, True), z3.Store(c.val, kz, to_z3(v, c.tv)), keys, idx))
                yield s, None
            return
        if name == "setdefault":
            k, d = args
            kz = to_z3(k, c.tk)
            for s, present in eng.branch(st, z3.Select(c.has, kz), "setdefault"):
                if present:
                    yield s, c.get(k)
                else:
                    keys = c.keys.append(c.tk.wrap(kz)) if c.keys is not None else None
                    idx = z3.Store(c.idx, kz, c.keys.n) if c.keys is not None else None
                    upd(s, SMap(c.tk, c.tv, z3.Store(c.has, kz, True), z3.Store(c.val, kz, to_z3(d, c.tv)), keys, idx))
                    yield s, d
            return
        if name in ("pop", "__delitem__"):
            if c.keys is not None:
                raise Unsupported("removal from ordered symbolic map")
            k = args[0]
            kz = to_z3(k, c.tk)
            for s, present in eng.branch(st, z3.Select(c.has, kz), "pop"):
                if present:
                    upd(s, SMap(c.tk, c.tv, z3.Store(c.has, kz, False), c.val))
                    yield s, c.get(k)
                elif len(args) > 1:
                    yield s, args[1]
                else:
                    yield s, ExcVal(KeyError, (k,), where)
            return
        if name == "keys":
            if c.keys is not None:
                yield st, c.keys
            else:
                yield st, SSet(c.tk, c.has)
            return
        if name in ("items", "values"):
            def gen(e, s, c=c, name=name):
                for s1, ks in iterate(e, s, c):
                    if isinstance(ks, list):
                        yield s1, [((k, c.get(k)) if name == "items" else c.get(k)) for k in ks]
                    else:
                        it = ItemsSeq(c, ks, name)
                        ent = e.__dict__.get("_enum_idx", {}).get(id(ks))
                        it.idx = c.idx if c.idx is not None else (ent[1] if ent is not None else None)
                        yield s1, it
            view = IterView(gen)
            if name == "values":
                view.values_of = c     # supports `x in d.values()` on a symbolic map
            yield st, view
            return
        if name == "__len__":
            if c.keys is None:
                raise Unsupported("len of unordered symbolic map")
            yield st, c.keys.length()
            return
        if name == "copy":
            yield st, st.alloc(c, "dict")
            return
        if name == "clear":
            upd(st, SMap.empty(c.tk, c.tv, c.keys is not None))
            yield st, None
            return
        raise Unsupported(f"dict method {name}")
    # ---- sets
    if isinstance(c, SSet):
        if name == "add":
            k = args[0]
            for s, keys, idx in _insert_key(eng, st, c, k):
                upd(s, SSet(c.tk, z3.Store(c.has, to_z3(k, c.tk), True), keys, idx))
                yield s, None
            return
        if name in ("remove", "discard"):
            if c.keys is not None:
                raise Unsupported("removal from ordered symbolic set")
            k = args[0]
            kz = to_z3(k, c.tk)
            if name == "discard":
                upd(st, SSet(c.tk, z3.Store(c.has, kz, False)))
                yield st, None
                return
            for s, present in eng.branch(st, z3.Select(c.has, kz), "remove"):
                if present:
                    upd(s, SSet(c.tk, z3.Store(c.has, kz, False)))
                    yield s, None
                else:
                    yield s, ExcVal(KeyError, (k,), where)
            return
        if name == "update" or name == "union":
            o = eng.deref(st, args[0])
            if isinstance(o, SMap):
                o = SSet(o.tk, o.has)
            if isinstance(o, SSeq):
                k = z3.Const(fresh_name("k"), c.tk.z3sort())
                j = z3.Int(fresh_name("j"))
                has = z3.Lambda([k], z3.Or(z3.Select(c.has, k),
                                           z3.Exists([j], z3.And(0 <= j, j < o.n, z3.Select(o.arr, j) == k))))
                r = SSet(c.tk, has)
            else:
                o = as_sset(eng, st, o, c)
                k = z3.Const(fresh_name("k"), c.tk.z3sort())
                r = SSet(c.tk, z3.Lambda([k], z3.Or(z3.Select(c.has, k), z3.Select(o.has, k))))
            if name == "update":
                if c.keys is not None:
                    raise Unsupported("update of ordered symbolic set")
                upd(st, r)
                yield st, None
            else:
                yield st, st.alloc(r, "set") if isloc else r
            return
        if name == "copy":
            yield st, st.alloc(c, "set")
            return
        if name == "__len__":
            if c.keys is None:
                raise Unsupported("len of unordered symbolic set")
            yield st, c.keys.length()
            return
        if name == "issubset":
            o = as_sset(eng, st, args[0], c)
            k = z3.Const(fresh_name("k"), c.tk.z3sort())
            yield st, SBool(z3.ForAll([k], z3.Implies(z3.Select(c.has, k), z3.Select(o.has, k))))
            return
        raise Unsupported(f"set method {name}")
    # ---- concrete python set in heap
    if isinstance(c, CSet):
        if name == "add" and not isinstance(args[0], (SV, Loc)):
            upd(st, CSet(c.items | {args[0]}))
            yield st, None
            return
        if name == "add" and isinstance(args[0], SV) and type_of(args[0]) is not None:
            r = SSet.empty(type_of(args[0]))
            for x in c.items:
                r = r.add(x)
            upd(st, r.add(args[0]))
            yield st, None
            return
        raise Unsupported(f"CSet method {name}")
    # ---- sequences
    if isinstance(c, CList):
        if name == "append":
            upd(st, CList(c.items + (args[0],)))
            yield st, None
            return
        if name == "extend":
            for s, items in iterate(eng, st, args[0]):
                if isinstance(items, list):
                    upd(s, CList(c.items + tuple(items)))
                else:
                    upd(s, seq_concat(eng, s, as_sseq(eng, s, c, items.te), items))
                yield s, None
            return
        if name == "pop":
            if not c.items:
                yield st, ExcVal(IndexError, (), where)
                return
            i = args[0] if args else -1
            if not isinstance(i, int):
                raise Unsupported("pop with symbolic index")
            items = list(c.items)
            v = items.pop(i)
            upd(st, CList(items))
            yield st, v
            return
        if name == "insert" and isinstance(args[0], int):
            items = list(c.items)
            items.insert(args[0], args[1])
            upd(st, CList(items))
            yield st, None
            return
        if name == "copy":
            yield st, st.alloc(CList(c.items), "list")
            return
        if name == "__setitem__" and isinstance(args[0], int):
            items = list(c.items)
            if not -len(items) <= args[0] < len(items):
                yield st, ExcVal(IndexError, (), where)
                return
            items[args[0]] = args[1]
            upd(st, CList(items))
            yield st, None
            return
        if name == "__len__":
            yield st, len(c.items)
            return
        if name == "clear":
            upd(st, CList(()))
            yield st, None
            return
        if name == "reverse":
            upd(st, CList(tuple(reversed(c.items))))
            yield st, None
            return
        if name == "index":
            raise Unsupported("list.index")
        raise Unsupported(f"list method {name}")
    if isinstance(c, SSeq):
        if name == "append":
            upd(st, c.append(args[0]))
            yield st, None
            return
        if name == "extend":
            o = as_sseq(eng, st, args[0], c.te)
            upd(st, seq_concat(eng, st, c, o))
            yield st, None
            return
        if name == "pop":
            if args:
                raise Unsupported("pop(i) on symbolic list")
            for s, ne in eng.branch(st, c.n > 0, "pop"):
                if ne:
                    upd(s, SSeq(c.te, c.arr, z3.simplify(c.n - 1)))
                    yield s, c.te.wrap(z3.Select(c.arr, c.n - 1))
                else:
                    yield s, ExcVal(IndexError, (), where)
            return
        if name == "__len__":
            yield st, c.length()
            return
        if name == "__setitem__":
            kz = zint(args[0])
            for s, ok in eng.branch(st, z3.And(kz >= 0, kz < c.n), "setidx"):
                if ok:
                    upd(s, SSeq(c.te, z3.Store(c.arr, kz, to_z3(args[1], c.te)), c.n))
                    yield s, None
                else:
                    raise Unsupported("negative/out-of-range symbolic list store")
            return
        if name == "copy":
            yield st, st.alloc(c, "list")
            return
        if name == "clear":
            upd(st, SSeq.of(c.te, []))
            yield st, None
            return
        if name == "reverse" and not args:
            jz = z3.Int(fresh_name("rj"))
            upd(st, SSeq(c.te, z3.Lambda([jz], z3.Select(c.arr, c.n - 1 - jz)), c.n))
            yield st, None
            return
        raise Unsupported(f"list method {name} on symbolic list")
    if isinstance(c, CDict):
        if name == "get":
            k = args[0]
            d = args[1] if len(args) > 1 else None
            if isinstance(k, SV):
                raise Unsupported("symbolic key in concrete dict .get")
            yield st, c.items.get(k, d)
            return
        if name == "__setitem__" and not isinstance(args[0], (SV, Loc)):
            d = dict(c.items)
            d[args[0]] = args[1]
            upd(st, CDict(d))
            yield st, None
            return
        if name == "setdefault" and not isinstance(args[0], (SV, Loc)):
            if args[0] in c.items:
                yield st, c.items[args[0]]
                return
            d = dict(c.items)
            d[args[0]] = args[1]
            upd(st, CDict(d))
            yield st, args[1]
            return
        if name in ("keys", "values", "items"):
            r = {"keys": list(c.items.keys()), "values": list(c.items.values()),
                 "items": list(c.items.items())}[name]
            yield st, tuple(r)
            return
        if name == "__len__":
            yield st, len(c.items)
            return
        if name == "pop" and not isinstance(args[0], SV):
            d = dict(c.items)
            if args[0] in d:
                v = d.pop(args[0])
                upd(st, CDict(d))
                yield st, v
            elif len(args) > 1:
                yield st, args[1]
            else:
                yield st, ExcVal(KeyError, (args[0],), where)
            return
        raise Unsupported(f"CDict method {name}")
    if isinstance(c, (tuple, str, frozenset)):
        if all(not isinstance(a, (SV, Loc)) for a in args):
            try:
                yield st, getattr(c, name)(*args, **kwargs)
            except Exception as e:  # noqa
                yield st, ExcVal(type(e), (), where)
            return
        if name == "__len__":
            yield st, len(c)
            return
        if isinstance(c, str) and name == "join" and getattr(eng, "exact_strings", False):
            for s1, items in iterate(eng, st, args[0]):
                if not isinstance(items, list):
                    raise Unsupported("join over a symbolic-length sequence")
                parts = []
                for k_, it in enumerate(items):
                    if k_:
                        parts.append(c)
                    parts.append(it)
                yield s1, SG.concat(parts) if parts else ""
            return
        if isinstance(c, str) and name in ("join", "format"):
            yield st, Str.fresh(name)       # text assembled from symbolic pieces: an arbitrary string
            return
        raise Unsupported(f"method {name} of concrete {type(c).__name__} with symbolic args")
    if isinstance(c, SRef) and name in c.t.methods:
        # an opaque container under contract (subscript store / load dispatch to its declared methods)
        yield from eng.call(st, __import__("pyvc.engine", fromlist=["SymMethod"]).SymMethod(c, name), list(args), dict(kwargs), node)
        return
    raise Unsupported(f"method {name} on {c!r}")


# ----------------------------------------------------------------------------- builtins
@builtin(len)
def _len(eng, st, args, kw, node):
    (v,) = args
    if v is engine_mod().OPAQUE:
        n = Int.fresh("opaque.len")
        st.assume(n.z >= 0)
        yield st, n
        return
    for s, v in eng.force(st, v):
        c = eng.deref(s, v)
        if isinstance(c, (CList,)):
            yield s, len(c.items)
        elif isinstance(c, CDict):
            yield s, len(c.items)
        elif isinstance(c, CSet):
            yield s, len(c.items)
        elif isinstance(c, (tuple, list, str, dict, set, frozenset)):
            yield s, len(c)
        elif isinstance(c, SSeq):
            yield s, c.length()
        elif isinstance(c, SSet) and c.keys is None:
            # cardinality of an unordered finite set: uninterpreted, constrained by the two facts the code can observe
            # (non-negative; zero exactly for the empty set)
            asort = z3.ArraySort(c.tk.z3sort(), z3.BoolSort())
            cardf = _uf(f"card<{c.tk.z3sort()}>", asort, z3.IntSort())
            key = ("card", str(c.tk.z3sort()))
            if key not in eng.__dict__.setdefault("_axiom_keys", set()):
                eng._axiom_keys.add(key)
                S = z3.Const(fresh_name("S!card"), asort)
                eng.axioms.append(z3.ForAll([S], z3.And(cardf(S) >= 0, (cardf(S) == 0) == (S == z3.K(c.tk.z3sort(), z3.BoolVal(False)))),
                                            patterns=[cardf(S)]))
                # finite sets: a subset with at least as many elements is the whole set
                A_, B_ = z3.Const(fresh_name("A!card"), asort), z3.Const(fresh_name("B!card"), asort)
                x_ = z3.Const(fresh_name("x!card"), c.tk.z3sort())
                eng.axioms.append(z3.ForAll([A_, B_], z3.Or(z3.Exists([x_], z3.And(z3.Select(A_, x_), z3.Not(z3.Select(B_, x_)))),
                                                              cardf(A_) < cardf(B_), A_ == B_),
                                            patterns=[z3.MultiPattern(cardf(A_), cardf(B_))]))
            card = cardf(c.has)
            s.assume(card >= 0)
            yield s, SInt(card)
        elif isinstance(c, (SMap, SSet)):
            if c.keys is None:
                raise Unsupported("len of unordered symbolic map/set")
            yield s, c.keys.length()
        elif isinstance(c, (FSet, PendingEmpty)):
            yield from container_call(eng, s, v, "__len__", [], {}, node)
        else:
            yield from eng.dunder(s, v, "__len__", [], node)


@builtin(isinstance)
def _isinstance(eng, st, args, kw, node):
    v, cls = args
    clss = cls if isinstance(cls, tuple) else (cls,)
    for s, v in eng.force(st, v):
        yield s, isinstance_value(eng, s, v, clss)


def isinstance_value(eng, st, v, clss):
    clss = tuple(getattr(c, "__origin__", None) or c for c in clss)   # typing.List -> list, ...

    def sub(pc):
        return any(inspect.isclass(c) and issubclass(pc, c) for c in clss)
    if isinstance(v, (bool, SBool)):
        return sub(bool)
    if isinstance(v, (SInt,)):
        return sub(int)
    if isinstance(v, SReal):
        return sub(Fraction)
    if isinstance(v, FloatVal):
        return sub(float)
    if isinstance(v, X.SExt):
        terms = []
        if sub(int):
            terms.append(v.k == X.K_INT)
        if sub(Fraction):
            terms.append(v.k == X.K_FRAC)
        if sub(float):
            terms.append(v.k >= X.K_NINF)
        r = z3.simplify(z3.Or(terms)) if terms else z3.BoolVal(False)
        return True if z3.is_true(r) else (False if z3.is_false(r) else SBool(r))
    if isinstance(v, (SStr, SG.SegStr)):
        return sub(str)
    if isinstance(v, SEnum):
        return sub(v.t.pyenum)
    if isinstance(v, tuple) and not hasattr(v, "_fields"):
        return sub(tuple)
    if isinstance(v, Struct):
        return sub(v.cls)
    if isinstance(v, ExcVal):
        return sub(v.cls)
    if isinstance(v, Loc):
        c = st.load(v)
        if isinstance(c, Rec):
            return sub(c.cls)
        if isinstance(c, (CList, SSeq)):
            return sub(list)
        if isinstance(c, (CDict, SMap)):
            return sub(dict) or sub(collections.OrderedDict) and isinstance(c, SMap) and c.keys is not None
        if isinstance(c, (SSet, CSet)):
            return sub(set)
    if isinstance(v, SSeq):
        return sub(tuple) or sub(list)
    if isinstance(v, SSet):
        return sub(frozenset) or sub(set)
    if isinstance(v, SRef):
        pc = v.t.pycls
        if pc is None:
            raise Unsupported(f"isinstance on {v.t} without python class")
        if sub(pc):
            return True
        # might be a subclass instance: consult declared class tests
        hook = getattr(v.t, "isinstance_hook", None)
        if hook is not None:
            return hook(eng, st, v, clss)
        if any(inspect.isclass(c) and issubclass(c, pc) for c in clss):
            raise Unsupported(f"isinstance({v.t.name}, subclass) needs an isinstance_hook")
        return False
    if v is None:
        return sub(type(None))
    if isinstance(v, SV):
        raise Unsupported(f"isinstance of {v!r}")
    return isinstance(v, clss)


@builtin(typing.cast)
def _cast(eng, st, args, kw, node):
    yield st, args[1]


@builtin(abs)
def _abs(eng, st, args, kw, node):
    (v,) = args
    for s, v in eng.force(st, v):
        if isinstance(v, (SInt, SReal)):
            yield s, type(v)(z3.If(v.z >= 0, v.z, -v.z))
        else:
            yield s, abs(v)


def _minmax(is_min):
    def h(eng, st, args, kw, node):
        if kw:
            raise Unsupported("min/max with key/default")
        if len(args) == 1:
            for s, items in iterate(eng, st, args[0]):
                if not isinstance(items, list):
                    raise Unsupported("min/max over symbolic-length sequence")
                if not items:
                    yield s, ExcVal(ValueError, (), eng.where(s, node))
                else:
                    yield from go(eng, s, items)
            return
        yield from go(eng, st, list(args))

    def go(eng, st, items):
        def rec(s, acc, rest):
            if not rest:
                yield s, acc
                return
            for s1, x in eng.force(s, rest[0]):
                if not isinstance(acc, SV) and not isinstance(x, SV):
                    nacc = (x if x < acc else acc) if is_min else (x if x > acc else acc)
                elif X.is_extlike(acc) or X.is_extlike(x):
                    nacc = X.simplify(X.minmax([X.to_ext(acc), X.to_ext(x)], is_min))
                else:
                    a, b, real = num_pair(acc, x)
                    W = SReal if real else SInt
                    if real and not (is_real_like(acc) and is_real_like(x)):
                        # mixed int/Fraction: result keeps the python type of the chosen one; we
                        # only model the value (documented: value-level model of min/max)
                        pass
                    nacc = W(z3.If(b < a, b, a) if is_min else z3.If(b > a, b, a))
                yield from rec(s1, nacc, rest[1:])
        for s0, first in eng.force(st, items[0]):
            yield from rec(s0, first, items[1:])
    return h


builtin(min)(_minmax(True))
builtin(max)(_minmax(False))


@builtin(int)
def _int(eng, st, args, kw, node):
    if not args:
        yield st, 0
        return
    (v,) = args
    for s, v in eng.force(st, v):
        if isinstance(v, SG.SegStr):
            kind, r = SG.to_int(v)
            yield s, (r if kind == "ok" else ExcVal(r, (), eng.where(s, node)))
            continue
        if isinstance(v, str):
            try:
                yield s, int(v)
            except ValueError:
                yield s, ExcVal(ValueError, (), eng.where(s, node))
            continue
        if isinstance(v, (int, Fraction, str)) and not isinstance(v, SV):
            yield s, int(v)
        elif isinstance(v, SInt):
            yield s, v
        elif isinstance(v, SBool):
            yield s, SInt(z3.If(v.z, 1, 0))
        elif isinstance(v, SReal):
            # truncation toward zero
            yield s, SInt(z3.If(v.z >= 0, z3.ToInt(v.z), -z3.ToInt(-v.z)))
        elif isinstance(v, FloatVal):
            x = v.exact.z
            r = rnd(x)
            # IEEE double rounding of the exact quotient: relative error at most 2**-53 (ground instance of the axiom)
            eps = z3.RealVal(1) / z3.RealVal(2 ** 53)
            ax = z3.If(x >= 0, x, -x)
            s.assume(r - x <= eps * ax, x - r <= eps * ax)
            yield s, SInt(z3.If(r >= 0, z3.ToInt(r), -z3.ToInt(-r)))
        else:
            raise Unsupported(f"int({v!r})")


_rnd = z3.Function("rnd", z3.RealSort(), z3.RealSort())


def rnd(x):
    return _rnd(x)


def rnd_axioms():
    x = z3.Real("x!rnd")
    eps = z3.RealVal(1) / z3.RealVal(2 ** 53)
    return [z3.ForAll([x], z3.And(_rnd(x) - x <= eps * z3.If(x >= 0, x, -x),
                                  x - _rnd(x) <= eps * z3.If(x >= 0, x, -x)), patterns=[_rnd(x)])]


@builtin(float)
def _float(eng, st, args, kw, node):
    (v,) = args
    if isinstance(v, str) and v.strip().lower().lstrip("+-") in ("inf", "infinity", "nan"):
        yield st, float(v)
        return
    raise Unsupported("float()")


@builtin(math.isnan)
def _isnan(eng, st, args, kw, node):
    (v,) = args
    for s, v in eng.force(st, v):
        if isinstance(v, X.SExt):
            yield s, SBool(v.isnan())
        elif isinstance(v, float):
            yield s, v != v
        elif isinstance(v, (int, Fraction, SInt, SReal)):
            yield s, False
        else:
            raise Unsupported(f"math.isnan({v!r})")


@builtin(bool)
def _bool(eng, st, args, kw, node):
    if not args:
        yield st, False
        return
    bv = eng.as_bool_value(st, args[0])
    if bv is not None:
        yield st, bv
        return
    for s, b in eng.truth(st, args[0], "bool()"):
        yield s, b


@builtin(str, repr)
def _str(eng, st, args, kw, node):
    if args and getattr(eng, "exact_strings", False) and isinstance(args[0], (SInt, SReal, SG.SegStr, SRef, SUnion)):
        for s, v in eng.force(st, args[0]):
            if isinstance(v, SG.SegStr):
                yield s, v
            elif isinstance(v, (SInt, SReal)):
                yield s, SG.atom_of(v)
            elif isinstance(v, SRef) and v.t.pycls is not None:
                meth = None
                for nm in ("__str__", "__repr__"):
                    a = inspect.getattr_static(v.t.pycls, nm, None)
                    if isinstance(a, types.FunctionType):
                        meth = a
                        break
                if meth is None:
                    yield s, Str.fresh("str")
                else:
                    from .engine import BoundMethod
                    yield from eng.call(s, BoundMethod(v, meth), [], {}, node)
            elif isinstance(v, (str, int, Fraction)) and not isinstance(v, SV):
                yield s, str(v)
            else:
                yield s, Str.fresh("str")
        return
    if args and isinstance(args[0], (str, int, Fraction, enum.Enum)) and not isinstance(args[0], SV):
        yield st, str(args[0])
    else:
        yield st, Str.fresh("str")


@builtin(Fraction)
def _fraction(eng, st, args, kw, node):
    if len(args) == 1:
        for s, v in eng.force(st, args[0]):
            if isinstance(v, (SInt, SReal)):
                yield s, SReal(zreal(v))
            elif isinstance(v, SBool):
                yield s, SReal(z3.If(v.z, z3.RealVal(1), z3.RealVal(0)))
            elif isinstance(v, FloatVal):
                x = v.exact.z
                r = rnd(x)
                eps = z3.RealVal(1) / z3.RealVal(2 ** 53)
                ax = z3.If(x >= 0, x, -x)
                s.assume(r - x <= eps * ax, x - r <= eps * ax)
                yield s, SReal(r)
            elif isinstance(v, SG.SegStr):
                kind, r = SG.to_fraction(v)
                yield s, (r if kind == "ok" else ExcVal(r, (), eng.where(s, node)))
            elif isinstance(v, X.SExt):
                for s1, fin in eng.branch(s, v.finite(), "Fraction(ext)"):
                    if fin:
                        yield s1, SReal(v.v)
                    else:
                        yield s1, ExcVal(OverflowError, (), eng.where(s1, node))
            elif isinstance(v, float):
                if v != v or v in (float("inf"), float("-inf")):
                    yield s, ExcVal(OverflowError if v == v else ValueError, (), eng.where(s, node))
                else:
                    yield s, Fraction(v)
            elif isinstance(v, SV):
                raise Unsupported(f"Fraction({v!r})")
            else:
                try:
                    yield s, Fraction(v)
                except (ValueError, TypeError) as e:
                    yield s, ExcVal(type(e), (), eng.where(s, node))
        return
    if len(args) == 2:
        for s, a in eng.force(st, args[0]):
            for s2, b in eng.force(s, args[1]):
                if not isinstance(a, SV) and not isinstance(b, SV):
                    try:
                        yield s2, Fraction(a, b)
                    except ZeroDivisionError:
                        yield s2, ExcVal(ZeroDivisionError, (), eng.where(s2, node))
                    continue
                x, y = zreal(a), zreal(b)
                for s3, zero in eng.branch(s2, y == 0, "frac0"):
                    if zero:
                        yield s3, ExcVal(ZeroDivisionError, (), eng.where(s3, node))
                    else:
                        yield s3, SReal(x / y)
        return
    raise Unsupported("Fraction() arity")


@builtin(range)
def _range(eng, st, args, kw, node):
    if all(isinstance(a, int) for a in args):
        yield st, range(*args)
        return
    if len(args) == 1:
        lo, hi = 0, args[0]
    elif len(args) == 2:
        lo, hi = args
    else:
        raise Unsupported("symbolic range step")
    loz, hiz = zint(lo), zint(hi)
    j = z3.Int(fresh_name("j"))
    n = z3.If(hiz > loz, hiz - loz, 0)
    yield st, SSeq(Int, z3.Lambda([j], j + loz), z3.simplify(n))


@builtin(enumerate)
def _enumerate(eng, st, args, kw, node):
    start = args[1] if len(args) > 1 else kw.get("start", 0)
    for s, items in iterate(eng, st, args[0]):
        if isinstance(items, list):
            yield s, tuple((i + start, x) for i, x in enumerate(items))
        else:
            yield s, EnumSeq(items, start)


class ZipDict:
    """dict(zip(keys, values)) with symbolic-length sequences: an opaque mapping value for callee contracts that take it whole"""

    def __init__(self, keys, values):
        self.keys, self.values = keys, values


class ItemsSeq:
    """d.items() / d.values() of an insertion-ordered symbolic map: element i is (keys[i], d[keys[i]])"""

    def __init__(self, m, keys, name):
        self.m, self.keys, self.name, self.n = m, keys, name, keys.n
        self.idx = getattr(m, "idx", None)

    def at(self, i):
        k = self.keys.at(i)
        return (k, self.m.get(k)) if self.name == "items" else self.m.get(k)


class EnumSeq:
    """enumerate(seq, start) over a symbolic-length sequence: element i is (start + i, seq[i])"""

    def __init__(self, seq, start=0):
        self.seq, self.start, self.n = seq, start, seq.n

    def at(self, i):
        idx = i + self.start if not (isinstance(i, int) and isinstance(self.start, int)) else i + self.start
        return (idx, self.seq.at(i))


@builtin(zip)
def _zip(eng, st, args, kw, node):
    def go(i, s, acc):
        if i == len(args):
            yield from finish(s, acc)
            return
        for s1, items in iterate(eng, s, args[i]):
            yield from go(i + 1, s1, acc + [items])

    def finish(s, acc):
        if all(isinstance(x, list) for x in acc):
            yield s, tuple(zip(*acc))
            return
        parts = [x if not isinstance(x, list) else None for x in acc]
        if any(p is None for p in parts):
            raise Unsupported("zip mixing concrete and symbolic-length sequences")
        yield s, ZipSeq(parts)
    yield from go(0, st, [])


class ZipSeq:
    """zip(...) over symbolic-length sequences: element i is the tuple of the i-th elements, length is the minimum"""

    def __init__(self, parts):
        self.parts = parts
        n = parts[0].n
        for p in parts[1:]:
            n = z3.If(p.n < n, p.n, n)
        self.n = n

    def at(self, i):
        return tuple(p.at(i) for p in self.parts)


@builtin(reversed)
def _reversed(eng, st, args, kw, node):
    for s, items in iterate(eng, st, args[0]):
        if isinstance(items, list):
            yield s, tuple(reversed(items))
        else:
            raise Unsupported("reversed of symbolic-length sequence")


def _mk_seq(kind):
    def h(eng, st, args, kw, node):
        if not args:
            yield st, (st.alloc(CList(()), "list") if kind == "list" else ())
            return
        for s, items in iterate(eng, st, args[0]):
            if isinstance(items, list):
                yield s, (s.alloc(CList(items), "list") if kind == "list" else tuple(items))
            else:
                yield s, (s.alloc(items, "list") if kind == "list" else items)
    return h


_handlers[list] = _mk_seq("list")
_handlers[tuple] = _mk_seq("tuple")


@builtin(set, frozenset)
def _set(eng, st, args, kw, node):
    if not args:
        yield st, st.alloc(PendingEmpty("set"), "set")
        return
    src = eng.deref(st, args[0])
    if isinstance(src, SSet):
        yield st, st.alloc(SSet(src.tk, src.has), "set")
        return
    if isinstance(src, SMap):
        yield st, st.alloc(SSet(src.tk, src.has), "set")
        return
    for s, items in iterate(eng, st, args[0]):
        if isinstance(items, list):
            if not items:
                yield s, s.alloc(PendingEmpty("set"), "set")
            else:
                yield from make_set(eng, s, items)
        else:
            k = z3.Const(fresh_name("k"), items.te.z3sort())
            j = z3.Int(fresh_name("j"))
            has = z3.Lambda([k], z3.Exists([j], z3.And(0 <= j, j < items.n, z3.Select(items.arr, j) == k)))
            yield s, s.alloc(SSet(items.te, has), "set")


class PendingEmpty:
    """an empty set()/dict()/list whose element type is fixed by the first insertion"""
    __slots__ = ("kind", "ordered")

    def __init__(self, kind, ordered=False):
        self.kind, self.ordered = kind, ordered


@builtin(dict, collections.OrderedDict)
def _dict(eng, st, args, kw, node):
    if not args and not kw:
        yield st, st.alloc(PendingEmpty("dict", True), "dict")
        return
    if not args:
        yield st, st.alloc(CDict(kw), "dict")
        return
    src = eng.deref(st, args[0])
    if isinstance(src, (SMap, CDict)):
        yield st, st.alloc(src, "dict")
        return
    if isinstance(src, ZipSeq) and len(src.parts) == 2:
        yield st, ZipDict(src.parts[0], src.parts[1])     # dict(zip(keys, values)) over symbolic sequences: kept as the two sequences
        return
    raise Unsupported("dict(iterable)")


_orig_container_call = container_call


def container_call(eng, st, target, name, args, kwargs, node=None):  # noqa: F811
    c = eng.deref(st, target)
    from .engine import OPAQUE as _OPQ
    if c is _OPQ:
        yield st, (None if name in ("__setitem__", "append", "add", "update", "extend") else _OPQ)   # a local the unit declared irrelevant
        return
    if isinstance(c, CDict) and not c.items and isinstance(target, Loc) and name in ("__setitem__", "setdefault") and args and isinstance(args[0], SV):
        # an empty dict literal that now receives a symbolic key: switch to the symbolic representation
        st.store(target, PendingEmpty("dict", True))
        c = eng.deref(st, target)
    if isinstance(c, PendingEmpty) and isinstance(target, Loc):
        # first use fixes the representation
        if c.kind == "set":
            if name == "add" and not isinstance(args[0], (SV, Loc)):
                st.store(target, CSet(()))
            elif name in ("add",):
                st.store(target, SSet.empty(type_of(args[0]), ordered=False))
            elif name in ("update", "union") :
                o = eng.deref(st, args[0])
                if isinstance(o, (SSet, SMap)):
                    st.store(target, SSet.empty(o.tk))
                elif isinstance(o, SSeq):
                    st.store(target, SSet.empty(o.te))
                else:
                    raise Unsupported("update of empty set with unknown element type")
            elif name == "__len__":
                yield st, 0
                return
            elif name == "copy":
                yield st, st.alloc(PendingEmpty("set"), "set")
                return
            else:
                raise Unsupported(f"{name} on empty set of unknown element type")
        elif c.kind == "dict":
            if name in ("__setitem__", "setdefault"):
                k, v = args
                tk, tv = type_of(k), type_of(eng.deref(st, v)) if not isinstance(v, Loc) else None
                if isinstance(k, (SV,)) and tk is not None and tv is not None:
                    st.store(target, SMap.empty(tk, tv, ordered=True))
                elif not isinstance(k, (SV, Loc)):
                    st.store(target, CDict({}))
                else:
                    raise Unsupported("dict with non-describable values")
            elif name == "get":
                yield st, (args[1] if len(args) > 1 else None)
                return
            elif name == "__len__":
                yield st, 0
                return
            elif name in ("keys", "values", "items"):
                yield st, ()
                return
            else:
                raise Unsupported(f"{name} on empty dict")
    yield from _orig_container_call(eng, st, target, name, args, kwargs, node)


_orig_contains = contains


def contains(eng, st, cont, x, node=None):  # noqa: F811
    c = eng.deref(st, cont)
    if isinstance(c, PendingEmpty):
        yield st, False
        return
    if isinstance(c, CSet):
        if isinstance(x, (SV, Loc)):
            terms = []
            for it in c.items:
                r = equal(eng, st, x, it)
                if r is True:
                    yield st, True
                    return
                if r is not False and r is not None:
                    terms.append(r.z)
            yield st, (SBool(z3.Or(terms)) if terms else False)
        else:
            yield st, x in c.items
        return
    yield from _orig_contains(eng, st, cont, x, node)


_orig_iterate = iterate


def iterate(eng, st, v):  # noqa: F811
    c = eng.deref(st, v)
    if isinstance(c, PendingEmpty):
        yield st, []
        return
    if isinstance(c, CSet):
        yield st, sorted(c.items, key=repr)
        return
    yield from _orig_iterate(eng, st, v)


def _mk_allany(is_all):
    def h(eng, st, args, kw, node):
        (v,) = args
        c = eng.deref(st, v)
        if isinstance(c, QuantSeq):
            yield st, c.quantify(is_all)
            return
        for s, items in iterate(eng, st, v):
            if not isinstance(items, list):
                if isinstance(items, SSeq) and isinstance(items.te, _Bool):
                    j = z3.Int(fresh_name("j"))
                    body = z3.Select(items.arr, j)
                    rng = z3.And(0 <= j, j < items.n)
                    yield s, SBool(z3.ForAll([j], z3.Implies(rng, body)) if is_all
                                   else z3.Exists([j], z3.And(rng, body)))
                    continue
                raise Unsupported("all/any over symbolic sequence of non-bools")
            terms = []
            const = None
            for x in items:
                bv = eng.as_bool_value(s, x)
                if bv is None:
                    raise Unsupported("all/any element truthiness")
                if isinstance(bv, bool):
                    if bv != is_all:
                        const = bv
                        break
                else:
                    terms.append(bv.z)
            if const is not None:
                yield s, const
            elif not terms:
                yield s, is_all
            else:
                yield s, SBool(z3.And(terms) if is_all else z3.Or(terms))
    return h


_handlers[all] = _mk_allany(True)
_handlers[any] = _mk_allany(False)


class QuantSeq:
    """generator expression over a symbolic-length sequence: element(j) for j in [0,n)"""

    def __init__(self, j, n, elem, cond):
        self.j, self.n, self.elem, self.cond = j, n, elem, cond

    def quantify(self, is_all):
        rng = z3.And(0 <= self.j, self.j < self.n)
        if self.cond is not None:
            rng = z3.And(rng, self.cond)
        b = zbool(self.elem)
        return SBool(z3.ForAll([self.j], z3.Implies(rng, b)) if is_all else z3.Exists([self.j], z3.And(rng, b)))


@builtin(sum)
def _sum(eng, st, args, kw, node):
    start = args[1] if len(args) > 1 else 0
    for s, items in iterate(eng, st, args[0]):
        if not isinstance(items, list):
            raise Unsupported("sum over symbolic-length sequence")
        acc = start
        def go(s0, acc, rest):
            if not rest:
                yield s0, acc
                return
            for s1, r in binop(eng, s0, ast.Add(), acc, rest[0], node):
                yield from go(s1, r, rest[1:])
        yield from go(s, acc, items)


@builtin(next)
def _next(eng, st, args, kw, node):
    it = args[0]
    if isinstance(it, IterHandle):
        for s, items in iterate(eng, st, it.src):
            if isinstance(items, list):
                if items:
                    yield s, items[0]
                elif len(args) > 1:
                    yield s, args[1]
                else:
                    yield s, ExcVal(StopIteration, (), eng.where(s, node))
            else:
                for s2, ne in eng.branch(s, items.n > 0, "next"):
                    if ne:
                        yield s2, items.at(0)
                    elif len(args) > 1:
                        yield s2, args[1]
                    else:
                        yield s2, ExcVal(StopIteration, (), eng.where(s2, node))
        return
    raise Unsupported("next() on general iterator")


class IterHandle:
    __slots__ = ("src",)

    def __init__(self, src):
        self.src = src


@builtin(iter)
def _iter(eng, st, args, kw, node):
    yield st, IterHandle(args[0])


@builtin(sorted)
def _sorted(eng, st, args, kw, node):
    raise Unsupported("sorted() (give a contract)")


@builtin(hash)
def _hash(eng, st, args, kw, node):
    (v,) = args
    if isinstance(v, SRef):
        yield st, uf_value(eng, st, "hash." + v.t.name, [v.z], [v.t.z3sort()], Int)
        return
    if isinstance(v, (SStr, str)):
        yield st, uf_value(eng, st, "hash.Str", [to_z3(v, Str)], [Str.z3sort()], Int)
        return
    if isinstance(v, (SInt,)):
        yield st, uf_value(eng, st, "hash.Int", [v.z], [z3.IntSort()], Int)
        return
    if isinstance(v, int):
        yield st, hash(v)
        return
    if isinstance(v, SEnum):
        yield st, uf_value(eng, st, "hash." + v.t.pyenum.__name__, [v.z], [v.t.z3sort()], Int)
        return
    if isinstance(v, Loc):
        yield from eng.dunder(st, v, "__hash__", [], node)
        return
    raise Unsupported(f"hash({v!r})")


@builtin(print)
def _print(eng, st, args, kw, node):
    yield st, None


import warnings as _warnings


@builtin(_warnings.warn)
def _warn(eng, st, args, kw, node):
    yield st, None


@builtin(getattr)
def _getattr(eng, st, args, kw, node):
    if len(args) == 2 and isinstance(args[1], str):
        yield from eng.getattr(st, args[0], args[1], node)
        return
    if len(args) == 3 and isinstance(args[1], str):
        for s, r in eng.getattr(st, args[0], args[1], node):
            if isinstance(r, ExcVal) and r.cls is AttributeError:
                yield s, args[2]
            else:
                yield s, r
        return
    raise Unsupported("getattr with symbolic name")


@builtin(type)
def _type(eng, st, args, kw, node):
    (v,) = args
    if isinstance(v, Loc) and isinstance(st.load(v), Rec):
        yield st, st.load(v).cls
        return
    if isinstance(v, SRef):
        h = getattr(v.t, "type_hook", None)
        if h is not None:
            yield st, h(eng, st, v)
            return
        raise Unsupported("type() of opaque reference")
    if isinstance(v, SV):
        raise Unsupported("type() of symbolic value")
    yield st, type(v)


@builtin(itertools.chain)
def _chain(eng, st, args, kw, node):
    """chain(*parts): the flattened sequence.  Concrete parts of concrete structure are concatenated; with a symbolic number of
    parts (a starred symbolic sequence of list-references) the result is a fresh sequence constrained by the library contract of
    chain: every element of every part occurs in it, and every element of it comes from some part."""
    from .engine import StarSeq
    parts = list(args)
    if not any(isinstance(p, StarSeq) for p in parts):
        flat = []
        symbolic = []
        for p in parts:
            for s, items in iterate(eng, st, p):
                if isinstance(items, list):
                    flat.extend(items)
                else:
                    symbolic.append(items)
                break
        if not symbolic:
            yield st, tuple(flat)
            return
    elem_t = None
    outer, inner = [], []
    for p in parts:
        if isinstance(p, StarSeq):
            seq = p.seq
            first = seq.at(z3.Int(fresh_name("probe"))) if not isinstance(seq, ItemsSeq) else seq.at(z3.Int(fresh_name("probe")))
            if not (isinstance(first, SRef) and getattr(first.t, "iter_items", None) is not None):
                raise Unsupported("chain(*seq): the parts must be list references (Ref.iter_items)")
            elem_t = first.t.iter_items
            outer.append(seq)
        else:
            for s, items in iterate(eng, st, p):
                inner.append(items if not isinstance(items, list) else SSeq.of(type_of(items[0]) if items else elem_t, items))
                break
    if elem_t is None:
        elem_t = inner[0].te
    flat = Seq(elem_t).fresh("chain")
    st.assume(flat.n >= 0)
    pos_id = fresh_name("chain.pos")
    i = z3.Int(fresh_name("i"))
    src_conds = []
    for k, seq in enumerate(outer):
        a, b = z3.Int(fresh_name("a")), z3.Int(fresh_name("b"))
        part = seq.at(a)
        items = uf_value(eng, st, f"{part.t.name}.items", [part.z], [part.t.z3sort()], Seq(elem_t))
        pos = z3.Function(f"{pos_id}.{k}", z3.IntSort(), z3.IntSort(), z3.IntSort())
        st.assume(z3.ForAll([a, b], z3.Implies(z3.And(0 <= a, a < seq.n, 0 <= b, b < items.n),
                                               z3.And(0 <= pos(a, b), pos(a, b) < flat.n, z3.Select(flat.arr, pos(a, b)) == z3.Select(items.arr, b))),
                            patterns=[z3.Select(items.arr, b)]))
        src_conds.append(z3.Exists([a, b], z3.And(0 <= a, a < seq.n, 0 <= b, b < items.n, z3.Select(flat.arr, i) == z3.Select(items.arr, b))))
    for k, seq in enumerate(inner):
        b = z3.Int(fresh_name("b"))
        pos = z3.Function(f"{pos_id}.in{k}", z3.IntSort(), z3.IntSort())
        st.assume(z3.ForAll([b], z3.Implies(z3.And(0 <= b, b < seq.n),
                                            z3.And(0 <= pos(b), pos(b) < flat.n, z3.Select(flat.arr, pos(b)) == z3.Select(seq.arr, b))),
                            patterns=[z3.Select(seq.arr, b)]))
        src_conds.append(z3.Exists([b], z3.And(0 <= b, b < seq.n, z3.Select(flat.arr, i) == z3.Select(seq.arr, b))))
    st.assume(z3.ForAll([i], z3.Implies(z3.And(0 <= i, i < flat.n), z3.Or(src_conds))))
    yield st, flat


@builtin(itertools.product)
def _product(eng, st, args, kw, node):
    def go(i, s, acc):
        if i == len(args):
            yield s, tuple(itertools.product(*acc))
            return
        for s1, items in iterate(eng, s, args[i]):
            if not isinstance(items, list):
                raise Unsupported("product over symbolic-length sequence")
            yield from go(i + 1, s1, acc + [items])
    yield from go(0, st, [])


# ----------------------------------------------------------------------------- comprehensions
def comprehension(eng, st, node, kind):
    gens = node.generators
    if any(g.is_async for g in gens):
        raise Unsupported("async comprehension")

    # evaluate in a child scope that shares the function's locals (python 3.12 inlines them,
    # the loop variables do not leak)
    saved_names = set()
    for g in gens:
        for n in ast.walk(g.target):
            if isinstance(n, ast.Name):
                saved_names.add(n.id)

    def elem_nodes():
        if kind == "dict":
            return ast.Tuple(elts=[node.key, node.value], ctx=ast.Load(), lineno=node.lineno, col_offset=0)
        return node.elt

    def restore(s, saved):
        for n in saved_names:
            if n in saved:
                s.frame.vars[n] = saved[n]
            else:
                s.frame.vars.pop(n, None)

    saved = {n: st.frame.vars[n] for n in saved_names if n in st.frame.vars}

    def go(gi, s, acc):
        if gi == len(gens):
            for s1, v in eng.ev(elem_nodes(), s):
                yield s1, (v if isinstance(v, ExcVal) else acc + [v])
            return
        g = gens[gi]
        for s1, itv in eng.ev(g.iter, s):
            if isinstance(itv, ExcVal):
                yield s1, itv
                continue
            for s2, items in iterate(eng, s1, itv):
                if not isinstance(items, list):
                    yield s2, _SymIter(g, gi, items)
                    continue
                def each(idx, s3, acc2):
                    if idx == len(items):
                        yield s3, acc2
                        return
                    for s4, out in eng.assign(g.target, items[idx], s3):
                        if out is not None:
                            yield s4, out[1]
                            continue
                        def conds(ci, s5):
                            if ci == len(g.ifs):
                                yield s5, True
                                return
                            for s6, c in eng.ev(g.ifs[ci], s5):
                                if isinstance(c, ExcVal):
                                    yield s6, c
                                    continue
                                for s7, b in eng.truth(s6, c, f"compif{eng.line(s6, node)}"):
                                    if b:
                                        yield from conds(ci + 1, s7)
                                    else:
                                        yield s7, False
                        for s5, ok in conds(0, s4):
                            if isinstance(ok, ExcVal):
                                yield s5, ok
                            elif ok:
                                for s6, r in go(gi + 1, s5, acc2):
                                    if isinstance(r, (ExcVal, _SymIter)):
                                        yield s6, r
                                    else:
                                        yield from each(idx + 1, s6, r)
                            else:
                                yield from each(idx + 1, s5, acc2)
                yield from each(0, s2, acc)

    for s, r in go(0, st, []):
        if isinstance(r, _SymIter):
            yield from _sym_comprehension(eng, s, node, kind, r, elem_nodes(), saved, restore)
            continue
        restore(s, saved)
        if isinstance(r, ExcVal):
            yield s, r
        elif kind == "list":
            yield s, s.alloc(CList(r), "list")
        elif kind == "gen":
            yield s, tuple(r)
        elif kind == "set":
            if not r:
                yield s, s.alloc(PendingEmpty("set"), "set")
            else:
                yield from make_set(eng, s, r)
        else:
            if not r:
                yield s, s.alloc(PendingEmpty("dict", True), "dict")
            else:
                yield from make_dict(eng, s, [tuple(p) for p in r])


class _SymIter:
    def __init__(self, gen, gi, seq):
        self.gen, self.gi, self.seq = gen, gi, seq


def _sym_comprehension(eng, st, node, kind, si, elt, saved, restore):
    """single generator over a symbolic-length sequence; body must be a single pure path"""
    if si.gi != 0 or len(node.generators) != 1:
        raise Unsupported("nested comprehension over symbolic-length sequence")
    g, seq = si.gen, si.seq
    j = Int.fresh("cj")
    probe = st.fork()
    probe.assume(j.z >= 0, j.z < seq.n)
    nobl = len(probe.obls)
    base = len(probe.pc)
    res = []
    for s1, out in eng.assign(g.target, seq.at(j), probe):
        if out is not None:
            raise Unsupported("comprehension target raises")
        conds = []
        ok = True
        cur = [(s1, [])]
        for cnode in g.ifs:
            nxt = []
            for s2, cs in cur:
                for s3, c in eng.ev(cnode, s2):
                    bv = eng.as_bool_value(s3, c)
                    if not isinstance(bv, (bool, SBool)):
                        raise Unsupported("comprehension filter is not a simple Bool")
                    nxt.append((s3, cs + [zbool(bv)]))
            cur = nxt
        for s2, cs in cur:
            for s3, v in eng.ev(elt, s2):
                res.append((s3, cs, v))
    normal = [r for r in res if not isinstance(r[2], ExcVal)]
    excs = [r for r in res if isinstance(r[2], ExcVal)]
    if len(normal) != 1:
        raise Unsupported(f"comprehension body over symbolic sequence forks ({len(normal)} normal paths)")
    s3, cs, v = normal[0]
    if len(s3.obls) != nobl or any(len(r[0].obls) != nobl for r in excs):
        raise Unsupported("comprehension body over symbolic sequence raises obligations")
    rng = z3.And(0 <= j.z, j.z < seq.n)
    if excs or len(s3.pc) != base:
        # element j evaluates normally iff ok(j); the comprehension raises iff some element does
        ok = z3.And(list(s3.pc[base:])) if len(s3.pc) > base else z3.BoolVal(True)
        for (se, ce, ve) in excs:
            bad = z3.And(list(se.pc[base:]) + list(ce)) if (len(se.pc) > base or ce) else z3.BoolVal(True)
            sx = st.fork()
            sx.assume(z3.Exists([j.z], z3.And(rng, bad)))
            restore(sx, saved)
            if eng.feasible(sx, z3.Exists([j.z], z3.And(rng, bad))) or True:
                yield sx.note("comp:raise"), ve
        st.assume(z3.ForAll([j.z], z3.Implies(rng, ok)))
    restore(st, saved)
    cond = z3.And(cs) if cs else None
    if kind == "gen":
        bv = eng.as_bool_value(s3, v)
        te = type_of(v)
        if cond is None and te is not None and isinstance(te, (_Int, _Bool, _Real, Ref, Enum, _Str)):
            arr = z3.Lambda([j.z], to_z3(v, te))
            q = QuantSeqSeq(te, arr, seq.n, j.z, v, cond)
            yield st, q
        else:
            yield st, QuantSeq(j.z, seq.n, v, cond)
        return
    if kind == "dict":
        # {key: value for key, value in m.items() if cond}: supported when the source is the items view of a map and the new key is
        # the item's own key (keys of one dict are distinct, so no entry overwrites another): a filtered / re-valued copy of m
        if not (isinstance(seq, ItemsSeq) and seq.name == "items" and isinstance(v, tuple) and len(v) == 2
                and hasattr(v[0], "z") and z3.eq(z3.simplify(v[0].z), z3.simplify(seq.keys.at(j).z))):
            if getattr(eng, "opaque_dictcomp", False):
                from .engine import OPAQUE
                eng.abstracted.add(f"{st.frame.fname}:dict-comprehension@{eng.line(st, node)}")
                yield st, OPAQUE          # declared irrelevant by the unit (listed in its trusted base)
                return
            raise Unsupported("dict comprehension over a symbolic sequence other than {k: f(k, v) for k, v in m.items() if c}")
        m = seq.m
        tv = type_of(v[1])
        k = z3.Const(fresh_name("k"), m.tk.z3sort())
        idx = m.idx if m.idx is not None else getattr(seq, "idx", None)
        pos = z3.Select(idx, k) if idx is not None else None
        if pos is None:
            raise Unsupported("dict comprehension over an unordered map")
        sub = [(j.z, pos)]
        c_k = z3.substitute(cond, *sub) if cond is not None else z3.BoolVal(True)
        v_k = z3.substitute(to_z3(v[1], tv), *sub)
        has = z3.Lambda([k], z3.And(z3.Select(m.has, k), c_k))
        val = z3.Lambda([k], v_k)
        yield st, st.alloc(SMap(m.tk, tv, has, val), "dict")
        return
    if cond is not None:
        if kind == "set":
            te = type_of(v)
            k = z3.Const(fresh_name("k"), te.z3sort())
            has = z3.Lambda([k], z3.Exists([j.z], z3.And(0 <= j.z, j.z < seq.n, cond, to_z3(v, te) == k)))
            yield st, st.alloc(SSet(te, has), "set")
            return
        raise Unsupported("filtered list comprehension over symbolic-length sequence")
    te = NoneT if v is None else type_of(v)
    if te is None:
        raise Unsupported("comprehension element type")
    arr = z3.Lambda([j.z], to_z3(v, te))
    if kind == "list":
        yield st, st.alloc(SSeq(te, arr, seq.n), "list")
    elif kind == "set":
        k = z3.Const(fresh_name("k"), te.z3sort())
        has = z3.Lambda([k], z3.Exists([j.z], z3.And(0 <= j.z, j.z < seq.n, to_z3(v, te) == k)))
        yield st, st.alloc(SSet(te, has), "set")
    else:
        raise Unsupported("dict comprehension over symbolic-length sequence")


class QuantSeqSeq(SSeq, QuantSeq):
    """generator over a symbolic sequence usable both as a sequence and under all()/any()"""
    __slots__ = ("j", "elem", "cond")

    def __init__(self, te, arr, n, j, elem, cond):
        SSeq.__init__(self, te, arr, n)
        self.j, self.elem, self.cond = j, elem, cond


# ------------------------------------------------------------------ finite-universe sets
class Guarded:
    """an iteration item that is present only under `guard`"""
    __slots__ = ("value", "guard")

    def __init__(self, value, guard):
        self.value, self.guard = value, guard


class FSet(SV):
    """subset of a finite *concrete* universe with symbolic membership bits (P(fin) proofs)"""
    __slots__ = ("universe", "mem")

    def __init__(self, universe, mem):
        self.universe = tuple(universe)
        self.mem = dict(mem)

    @staticmethod
    def fresh(universe, name):
        return FSet(universe, {u: z3.Bool(fresh_name(f"{name}[{u}]")) for u in universe})

    @staticmethod
    def of(universe, items):
        items = set(items)
        return FSet(universe, {u: z3.BoolVal(u in items) for u in universe})

    def bit(self, x):
        return self.mem.get(x, z3.BoolVal(False))

    def map2(self, o, f):
        return FSet(self.universe, {u: z3.simplify(f(self.mem[u], o.bit(u))) for u in self.universe})

    def eq(self, o):
        return z3.And([self.mem[u] == o.bit(u) for u in self.universe] +
                      [z3.Not(o.mem[u]) for u in getattr(o, "universe", ()) if u not in self.mem])

    def subset(self, o):
        return z3.And([z3.Implies(self.mem[u], o.bit(u)) for u in self.universe])


def _as_fset(eng, st, v, like):
    c = eng.deref(st, v)
    if isinstance(c, FSet):
        return c
    if isinstance(c, CSet):
        return FSet.of(like.universe, c.items)
    if isinstance(c, PendingEmpty):
        return FSet.of(like.universe, ())
    if isinstance(c, (set, frozenset, list, tuple)):
        return FSet.of(like.universe, c)
    if isinstance(c, CList):
        return FSet.of(like.universe, c.items)
    raise Unsupported(f"cannot view {c!r} as finite-universe set")


def fset_call(eng, st, target, c, name, args, kwargs, node):
    isloc = isinstance(target, Loc)

    def upd(newc):
        if not isloc:
            raise Unsupported(f"mutation {name} of immutable FSet")
        st.store(target, newc)
    if name == "copy":
        yield st, st.alloc(c, "set")
    elif name in ("add", "discard", "remove"):
        x = args[0]
        if isinstance(x, (SV, Loc)):
            raise Unsupported("symbolic element for finite-universe set")
        if x not in c.mem:
            if name == "add":
                raise Unsupported(f"element {x!r} outside the finite universe")
            if name == "remove":
                yield st, ExcVal(KeyError, (x,), "")
                return
            yield st, None
            return
        if name == "remove":
            for s, present in eng.branch(st, c.mem[x], "remove"):
                if present:
                    m = dict(c.mem)
                    m[x] = z3.BoolVal(False)
                    s.store(target, FSet(c.universe, m))
                    yield s, None
                else:
                    yield s, ExcVal(KeyError, (x,), "")
            return
        m = dict(c.mem)
        m[x] = z3.BoolVal(name == "add")
        upd(FSet(c.universe, m))
        yield st, None
    elif name in ("update", "difference_update", "intersection_update"):
        o = _as_fset(eng, st, args[0], c)
        f = {"update": z3.Or, "difference_update": lambda a, b: z3.And(a, z3.Not(b)),
             "intersection_update": z3.And}[name]
        upd(c.map2(o, f))
        yield st, None
    elif name in ("union", "intersection", "difference"):
        o = _as_fset(eng, st, args[0], c)
        f = {"union": z3.Or, "difference": lambda a, b: z3.And(a, z3.Not(b)), "intersection": z3.And}[name]
        yield st, st.alloc(c.map2(o, f), "set")
    elif name == "issubset":
        yield st, SBool(c.subset(_as_fset(eng, st, args[0], c)))
    elif name == "issuperset":
        yield st, SBool(_as_fset(eng, st, args[0], c).subset(c))
    elif name == "__len__":
        yield st, SInt(z3.Sum([z3.If(b, 1, 0) for b in c.mem.values()]))
    else:
        raise Unsupported(f"FSet method {name}")


_cc2 = container_call


def container_call(eng, st, target, name, args, kwargs, node=None):  # noqa: F811
    c = eng.deref(st, target)
    if any(a is engine_mod().OPAQUE for a in args) and name in ("append", "extend", "add", "update"):
        raise Unsupported("opaque value stored into a modelled container")
    if isinstance(c, FSet):
        yield from fset_call(eng, st, target, c, name, args, kwargs, node)
        return
    if isinstance(c, (CSet, PendingEmpty)) and args and isinstance(eng.deref(st, args[0]), FSet) and \
            name in ("union", "intersection", "difference", "issubset", "issuperset", "update",
                     "intersection_update", "difference_update"):
        like = eng.deref(st, args[0])
        st.store(target, _as_fset(eng, st, c, like)) if name.endswith("update") and isinstance(target, Loc) else None
        yield from fset_call(eng, st, target, _as_fset(eng, st, c, like), name, args, kwargs, node)
        return
    if isinstance(c, CSet):
        if name == "copy":
            yield st, st.alloc(CSet(c.items), "set")
            return
        if name in ("update", "union") and not isinstance(eng.deref(st, args[0]), SV):
            o = eng.deref(st, args[0])
            items = o.items if isinstance(o, (CSet, CList)) else (() if isinstance(o, PendingEmpty) else tuple(o))
            r = CSet(c.items | frozenset(items))
            if name == "update":
                st.store(target, r)
                yield st, None
            else:
                yield st, st.alloc(r, "set")
            return
        if name == "__len__":
            yield st, len(c.items)
            return
    yield from _cc2(eng, st, target, name, args, kwargs, node)


_contains2 = contains


def contains(eng, st, cont, x, node=None):  # noqa: F811
    c = eng.deref(st, cont)
    if isinstance(c, FSet):
        if isinstance(x, (SV, Loc)):
            raise Unsupported("symbolic element tested against finite-universe set")
        b = z3.simplify(c.bit(x))
        yield st, (True if z3.is_true(b) else False if z3.is_false(b) else SBool(b))
        return
    yield from _contains2(eng, st, cont, x, node)


_iterate2 = iterate


def iterate(eng, st, v):  # noqa: F811
    c = eng.deref(st, v)
    if isinstance(c, FSet):
        items = []
        for u in c.universe:
            b = z3.simplify(c.mem[u])
            if z3.is_false(b):
                continue
            items.append(u if z3.is_true(b) else Guarded(u, b))
        yield st, items
        return
    yield from _iterate2(eng, st, v)


_equal2 = equal


def equal(eng, st, a, b):  # noqa: F811
    ca, cb = (eng.deref(st, a) if eng is not None else a), (eng.deref(st, b) if eng is not None else b)
    if isinstance(ca, FSet) or isinstance(cb, FSet):
        f = ca if isinstance(ca, FSet) else cb
        o = cb if f is ca else ca
        try:
            return SBool(f.eq(_as_fset(eng, st, o, f)))
        except Unsupported:
            return False
    if isinstance(ca, (CSet, PendingEmpty)) and isinstance(cb, (CSet, PendingEmpty)):
        ia = ca.items if isinstance(ca, CSet) else frozenset()
        ib = cb.items if isinstance(cb, CSet) else frozenset()
        return ia == ib
    return _equal2(eng, st, a, b)


_set2 = _handlers[set]


def _set_fset(eng, st, args, kw, node):
    if args and isinstance(eng.deref(st, args[0]), FSet):
        yield st, st.alloc(eng.deref(st, args[0]), "set")
        return
    yield from _set2(eng, st, args, kw, node)


_handlers[set] = _set_fset
_handlers[frozenset] = _set_fset


@builtin(map)
def _map(eng, st, args, kw, node):
    f = args[0]
    if len(args) != 2:
        raise Unsupported("map with several iterables")
    for s, items in iterate(eng, st, args[1]):
        if not isinstance(items, list):
            # symbolic length: explored for lengths 0..UNROLL with symbolic elements, labelled bounded
            seq, k = items, eng.UNROLL
            if eng.feasible(s, seq.n > k):
                eng.bounded_used = True
            for n in range(k + 1):
                if not eng.feasible(s, seq.n == n):
                    continue
                s_n = s.fork()
                s_n.assume(seq.n == n)
                s_n.tags = s_n.tags + (f"bounded(len<={k})",)
                s_n.note(f"maplen={n}")
                yield from _map(eng, s_n, [f, tuple(seq.at(j) for j in range(n))], kw, node)
            return

        def go(i, s0, acc):
            if i == len(items):
                yield s0, tuple(acc)
                return
            it = items[i]
            g = it.guard if isinstance(it, Guarded) else None
            for s1, r in eng.call(s0, f, [it.value if g is not None else it], {}, node):
                if isinstance(r, ExcVal):
                    yield s1, r
                    return
                yield from go(i + 1, s1, acc + [Guarded(r, g) if g is not None else r])
        yield from go(0, s, [])


_sum2 = _handlers[sum]


def _sum_guarded(eng, st, args, kw, node):
    c = eng.deref(st, args[0])
    if isinstance(c, tuple) and any(isinstance(x, Guarded) for x in c):
        acc = args[1] if len(args) > 1 else 0
        terms = []
        for x in c:
            if isinstance(x, Guarded):
                terms.append(z3.If(x.guard, zint(x.value), 0))
            else:
                terms.append(zint(x))
        yield st, SInt(zint(acc) + z3.Sum(terms))
        return
    yield from _sum2(eng, st, args, kw, node)


_handlers[sum] = _sum_guarded

import functools as _functools


def lru_unwrap(f):
    """functools.lru_cache wrappers are transparent: the wrapped real function is executed"""
    return getattr(f, "__wrapped__", None)

"""Symbolic value model of pyvc.

Concrete Python values (int, bool, str, None, Fraction, enum members, classes, functions,
modules, tuples of values) are represented by themselves.  Everything else is one of the
classes below.  All value objects are immutable; mutable Python objects are `Loc`s whose
content lives in `State.heap`.
"""
from __future__ import annotations
import enum
import itertools
from fractions import Fraction
import z3

_counter = itertools.count()


def fresh_name(base: str) -> str:
    return f"{base}!{next(_counter)}"


class Unsupported(Exception):
    """The function left the verified Python subset: verdict *undecided*, never pass/violation."""


# ------------------------------------------------------------------------------------ types
class T:
    """Type descriptors (shapes of symbolic values)."""

    _sorts: dict = {}
    _enum_sorts: dict = {}

    def z3sort(self):
        raise Unsupported(f"type {self!r} cannot be stored in an array")

    def fresh(self, name: str):
        raise NotImplementedError

    def wrap(self, z):
        raise NotImplementedError


class _Int(T):
    def __repr__(self):
        return "Int"

    def z3sort(self):
        return z3.IntSort()

    def fresh(self, name):
        return SInt(z3.Int(fresh_name(name)))

    def wrap(self, z):
        return SInt(z)


class _Bool(T):
    def __repr__(self):
        return "Bool"

    def z3sort(self):
        return z3.BoolSort()

    def fresh(self, name):
        return SBool(z3.Bool(fresh_name(name)))

    def wrap(self, z):
        return SBool(z)


class _Real(T):
    def __repr__(self):
        return "Real"

    def z3sort(self):
        return z3.RealSort()

    def fresh(self, name):
        return SReal(z3.Real(fresh_name(name)))

    def wrap(self, z):
        return SReal(z)


def decl_sort(name: str):
    s = T._sorts.get(name)
    if s is None:
        s = z3.DeclareSort(name)
        T._sorts[name] = s
    return s


class _NoneT(T):
    """element type of a sequence of None values (`[None for _ in xs]`): one-valued"""

    def __repr__(self):
        return "NoneT"

    def z3sort(self):
        return decl_sort("NoneType")

    def fresh(self, name):
        return None

    def wrap(self, z):
        return None

    def const(self):
        return z3.Const("None", self.z3sort())


NoneT = _NoneT()


class _Str(T):
    def __repr__(self):
        return "Str"

    def z3sort(self):
        return decl_sort("Str")

    def fresh(self, name):
        return SStr(z3.Const(fresh_name(name), self.z3sort()))

    def wrap(self, z):
        return SStr(z)


class Ref(T):
    """Opaque reference to an instance of a real class; observers are uninterpreted."""

    _registry: dict = {}

    def __new__(cls, name, pycls=None, **kw):
        if name in Ref._registry:
            inst = Ref._registry[name]
            if pycls is not None and inst.pycls is None:
                inst.pycls = pycls
            return inst
        inst = object.__new__(cls)
        inst.name = name
        inst.pycls = pycls
        inst.fields = {}      # attribute name -> T        (uninterpreted, immutable)
        inst.observers = {}   # method name -> (argTs, T)  (uninterpreted pure method)
        inst.methods = {}     # method name -> python contract generator(engine, st, self, args, kw)
        inst.attrs = {}       # attribute name -> python function(engine, st, self) -> value
        inst.noinline = set()
        inst.null = None      # z3 constant standing for python None when the reference is nullable
        inst.mutable = {}     # attribute name -> T : fields that the verified code assigns (kept in a per-path heap array Ref -> T)
        Ref._registry[name] = inst
        return inst

    def __init__(self, name, pycls=None, fields=None, observers=None, methods=None, attrs=None):
        if fields:
            self.fields.update(fields)
        if observers:
            for k, v in observers.items():
                self.observers[k] = v if isinstance(v, tuple) else ((), v)
        if methods:
            self.methods.update(methods)
        if attrs:
            self.attrs.update(attrs)

    def __repr__(self):
        return f"Ref({self.name})"

    def z3sort(self):
        return decl_sort(self.name)

    def fresh(self, name):
        return SRef(self, z3.Const(fresh_name(name), self.z3sort()))

    def wrap(self, z):
        return SRef(self, z)


class Enum(T):
    _registry: dict = {}

    def __new__(cls, pyenum):
        if pyenum in Enum._registry:
            return Enum._registry[pyenum]
        inst = object.__new__(cls)
        inst.pyenum = pyenum
        inst.members = list(pyenum)
        sort, consts = z3.EnumSort(pyenum.__name__, [m.name for m in inst.members])
        inst.sort = sort
        inst.consts = dict(zip(inst.members, consts))
        Enum._registry[pyenum] = inst
        return inst

    def __init__(self, pyenum):
        pass

    def __repr__(self):
        return f"Enum({self.pyenum.__name__})"

    def z3sort(self):
        return self.sort

    def fresh(self, name):
        return SEnum(self, z3.Const(fresh_name(name), self.sort))

    def wrap(self, z):
        return SEnum(self, z)


class Seq(T):
    def __init__(self, elem: T):
        self.elem = elem

    def __repr__(self):
        return f"Seq({self.elem!r})"

    def fresh(self, name):
        n = z3.Int(fresh_name(name + ".len"))
        arr = z3.Array(fresh_name(name), z3.IntSort(), self.elem.z3sort())
        return SSeq(self.elem, arr, n)

    def constraints(self, v):
        return [v.n >= 0]


class Map(T):
    def __init__(self, k: T, v: T, ordered: bool = False):
        self.k, self.v, self.ordered = k, v, ordered

    def __repr__(self):
        return f"Map({self.k!r},{self.v!r})"

    def fresh(self, name):
        has = z3.Array(fresh_name(name + ".has"), self.k.z3sort(), z3.BoolSort())
        val = z3.Array(fresh_name(name + ".val"), self.k.z3sort(), self.v.z3sort())
        keys = Seq(self.k).fresh(name + ".keys") if self.ordered else None
        idx = z3.Array(fresh_name(name + ".idx"), self.k.z3sort(), z3.IntSort()) if self.ordered else None
        return SMap(self.k, self.v, has, val, keys, idx)


class Set(T):
    def __init__(self, k: T, ordered: bool = False):
        self.k, self.ordered = k, ordered

    def __repr__(self):
        return f"Set({self.k!r})"

    def fresh(self, name):
        has = z3.Array(fresh_name(name + ".has"), self.k.z3sort(), z3.BoolSort())
        keys = Seq(self.k).fresh(name + ".keys") if self.ordered else None
        idx = z3.Array(fresh_name(name + ".idx"), self.k.z3sort(), z3.IntSort()) if self.ordered else None
        return SSet(self.k, has, keys, idx)

    def z3sort(self):
        if self.ordered:
            raise Unsupported("ordered sets have no single z3 sort")
        return z3.ArraySort(self.k.z3sort(), z3.BoolSort())

    def wrap(self, z):
        return SSet(self.k, z)


class Opt(T):
    def __init__(self, t: T):
        self.t = t

    def __repr__(self):
        return f"Opt({self.t!r})"

    def fresh(self, name):
        g = z3.Bool(fresh_name(name + ".isnone"))
        return SUnion([(g, None), (z3.Not(g), self.t.fresh(name))])


class Union(T):
    def __init__(self, *ts: T):
        self.ts = ts

    def __repr__(self):
        return "Union(" + ",".join(map(repr, self.ts)) + ")"

    def fresh(self, name):
        tag = z3.Int(fresh_name(name + ".tag"))
        alts = []
        for i, t in enumerate(self.ts):
            g = tag == i if i < len(self.ts) - 1 else tag >= i
            if i == 0:
                g = tag <= 0
            alts.append((g, t.fresh(name) if t is not None else None))
        return SUnion(alts)


class Tup(T):
    """fixed-arity tuple of storable components; values are python tuples, the z3 sort is a tuple datatype"""
    _cache: dict = {}

    def __new__(cls, *ts):
        key = tuple(id(t) if not isinstance(t, (Ref, Enum)) else t for t in ts)
        key = tuple(repr(t) for t in ts)
        if key in Tup._cache:
            return Tup._cache[key]
        inst = object.__new__(cls)
        inst.ts = ts
        inst._sort = None
        Tup._cache[key] = inst
        return inst

    def __init__(self, *ts):
        pass

    def __repr__(self):
        return "Tup(" + ",".join(map(repr, self.ts)) + ")"

    def _mk(self):
        if self._sort is None:
            name = "Tup_" + "_".join(str(t.z3sort()) for t in self.ts)
            self._sort, self._cons, self._acc = z3.TupleSort(name, [t.z3sort() for t in self.ts])
        return self._sort

    def z3sort(self):
        return self._mk()

    def fresh(self, name):
        return tuple(t.fresh(f"{name}.{i}") for i, t in enumerate(self.ts))

    def wrap(self, z):
        self._mk()
        return tuple(t.wrap(z3.simplify(a(z))) for t, a in zip(self.ts, self._acc))

    def pack(self, v):
        self._mk()
        return self._cons(*[to_z3(x, t) for x, t in zip(v, self.ts)])


class Const(T):
    """A concrete python value used as a type (e.g. in a Union alternative)."""

    def __init__(self, v):
        self.v = v

    def fresh(self, name):
        return self.v


Int, Bool, Real, Str = _Int(), _Bool(), _Real(), _Str()
Num = Union(Int, Real)


# ----------------------------------------------------------------------------------- values
class SV:
    __slots__ = ()
    __hash__ = object.__hash__


class SBool(SV):
    __slots__ = ("z",)
    t = Bool

    def __init__(self, z):
        self.z = z

    def __repr__(self):
        return f"SBool({self.z})"

    # logical operators for contracts
    def __and__(self, o):
        return SBool(z3.And(self.z, zbool(o)))

    __rand__ = __and__

    def __or__(self, o):
        return SBool(z3.Or(self.z, zbool(o)))

    __ror__ = __or__

    def __invert__(self):
        return SBool(z3.Not(self.z))

    def __rshift__(self, o):  # implication
        return SBool(z3.Implies(self.z, zbool(o)))

    def __eq__(self, o):
        return SBool(self.z == zbool(o))

    def __ne__(self, o):
        return SBool(self.z != zbool(o))

    def __bool__(self):
        raise Unsupported("python truth value of a symbolic Bool taken inside a contract")


def _arith(cls_name):
    pass


class _SNum(SV):
    __slots__ = ("z",)

    def __init__(self, z):
        self.z = z

    def __repr__(self):
        return f"{type(self).__name__}({self.z})"

    def _bin(self, o, f):
        a, b, real = num_pair(self, o)
        return (SReal if real else SInt)(f(a, b))

    def __add__(self, o):
        return self._bin(o, lambda a, b: a + b)

    __radd__ = __add__

    def __sub__(self, o):
        return self._bin(o, lambda a, b: a - b)

    def __rsub__(self, o):
        return self._bin(o, lambda a, b: b - a)

    def __mul__(self, o):
        return self._bin(o, lambda a, b: a * b)

    __rmul__ = __mul__

    def __neg__(self):
        return type(self)(-self.z)

    def _cmp(self, o, f):
        a, b, _ = num_pair(self, o)
        return SBool(f(a, b))

    def __le__(self, o):
        return self._cmp(o, lambda a, b: a <= b)

    def __lt__(self, o):
        return self._cmp(o, lambda a, b: a < b)

    def __ge__(self, o):
        return self._cmp(o, lambda a, b: a >= b)

    def __gt__(self, o):
        return self._cmp(o, lambda a, b: a > b)

    def __eq__(self, o):
        return self._cmp(o, lambda a, b: a == b)

    def __ne__(self, o):
        return self._cmp(o, lambda a, b: a != b)

    __hash__ = object.__hash__


class SInt(_SNum):
    __slots__ = ()
    t = Int


class SReal(_SNum):
    __slots__ = ()
    t = Real


class SStr(SV):
    __slots__ = ("z",)
    t = Str

    def __init__(self, z):
        self.z = z

    def __eq__(self, o):
        return SBool(self.z == to_z3(o, Str))

    def __ne__(self, o):
        return SBool(self.z != to_z3(o, Str))

    __hash__ = object.__hash__


class SRef(SV):
    __slots__ = ("t", "z")

    def __init__(self, t, z):
        self.t, self.z = t, z

    def __repr__(self):
        return f"SRef({self.t.name}:{self.z})"

    def __eq__(self, o):
        if not isinstance(o, SRef):
            return SBool(z3.BoolVal(False))
        return SBool(self.z == o.z)

    def __ne__(self, o):
        if not isinstance(o, SRef):
            return SBool(z3.BoolVal(True))
        return SBool(self.z != o.z)

    __hash__ = object.__hash__


class SEnum(SV):
    __slots__ = ("t", "z")

    def __init__(self, t, z):
        self.t, self.z = t, z

    def __repr__(self):
        return f"SEnum({self.z})"

    def __eq__(self, o):
        return SBool(self.z == to_z3(o, self.t))

    def __ne__(self, o):
        return SBool(self.z != to_z3(o, self.t))

    __hash__ = object.__hash__

    def isin(self, members):
        return SBool(z3.Or([self.z == self.t.consts[m] for m in members]))


class SSeq(SV):
    """Immutable sequence: elements arr[0..n)."""

    __slots__ = ("te", "arr", "n")

    def __init__(self, te, arr, n):
        self.te, self.arr, self.n = te, arr, n

    def __repr__(self):
        return f"SSeq<{self.te!r}>(n={self.n})"

    def at(self, i):
        return self.te.wrap(z3.Select(self.arr, zint(i)))

    def __getitem__(self, i):
        return self.at(i)

    def length(self):
        return SInt(self.n) if not z3.is_int_value(self.n) else self.n.as_long()

    def append(self, v):
        return SSeq(self.te, z3.Store(self.arr, self.n, to_z3(v, self.te)), z3.simplify(self.n + 1))

    def same(self, o):
        """same length and same elements"""
        j = z3.Int(fresh_name("j"))
        return SBool(z3.And(self.n == o.n, z3.ForAll([j], z3.Implies(z3.And(0 <= j, j < self.n),
                                                                     z3.Select(self.arr, j) == z3.Select(o.arr, j)))))

    @staticmethod
    def of(te, items):
        arr = z3.K(z3.IntSort(), default_z3(te))
        for i, x in enumerate(items):
            arr = z3.Store(arr, i, to_z3(x, te))
        return SSeq(te, arr, z3.IntVal(len(items)))


class SMap(SV):
    __slots__ = ("tk", "tv", "has", "val", "keys", "idx")

    def __init__(self, tk, tv, has, val, keys=None, idx=None):
        self.tk, self.tv, self.has, self.val, self.keys, self.idx = tk, tv, has, val, keys, idx

    def __repr__(self):
        return f"SMap<{self.tk!r},{self.tv!r}>"

    def contains(self, k):
        return SBool(z3.Select(self.has, to_z3(k, self.tk)))

    def get(self, k):
        return self.tv.wrap(z3.Select(self.val, to_z3(k, self.tk)))

    def store(self, k, v):
        kz = to_z3(k, self.tk)
        return SMap(self.tk, self.tv, z3.Store(self.has, kz, True),
                    z3.Store(self.val, kz, to_z3(v, self.tv)), self.keys, self.idx)

    def same(self, o):
        """extensional equality of the finite maps (domain and values on the domain)"""
        k = z3.Const(fresh_name("k"), self.tk.z3sort())
        return SBool(z3.ForAll([k], z3.And(
            z3.Select(self.has, k) == z3.Select(o.has, k),
            z3.Implies(z3.Select(self.has, k), z3.Select(self.val, k) == z3.Select(o.val, k)))))

    @staticmethod
    def empty(tk, tv, ordered=False):
        return SMap(tk, tv, z3.K(tk.z3sort(), z3.BoolVal(False)), z3.K(tk.z3sort(), default_z3(tv)),
                    SSeq.of(tk, []) if ordered else None,
                    z3.K(tk.z3sort(), z3.IntVal(-1)) if ordered else None)


class SSet(SV):
    __slots__ = ("tk", "has", "keys", "idx")

    def __init__(self, tk, has, keys=None, idx=None):
        self.tk, self.has, self.keys, self.idx = tk, has, keys, idx

    def __repr__(self):
        return f"SSet<{self.tk!r}>"

    def contains(self, k):
        return SBool(z3.Select(self.has, to_z3(k, self.tk)))

    def add(self, k):
        return SSet(self.tk, z3.Store(self.has, to_z3(k, self.tk), True), self.keys, self.idx)

    def same(self, o):
        k = z3.Const(fresh_name("k"), self.tk.z3sort())
        return SBool(z3.ForAll([k], z3.Select(self.has, k) == z3.Select(o.has, k)))

    @staticmethod
    def empty(tk, ordered=False):
        return SSet(tk, z3.K(tk.z3sort(), z3.BoolVal(False)), SSeq.of(tk, []) if ordered else None,
                    z3.K(tk.z3sort(), z3.IntVal(-1)) if ordered else None)


class SUnion(SV):
    """Guarded alternatives; the guards are exhaustive and mutually exclusive."""

    __slots__ = ("alts",)

    def __init__(self, alts):
        self.alts = list(alts)

    def __repr__(self):
        return "SUnion(" + ", ".join(f"{g}->{v!r}" for g, v in self.alts) + ")"

    def is_none(self):
        gs = [g for g, v in self.alts if v is None]
        return SBool(z3.Or(gs) if gs else z3.BoolVal(False))

    def some(self):
        vs = [v for g, v in self.alts if v is not None]
        assert len(vs) == 1
        return vs[0]


class Loc:
    """Reference to a mutable object stored in State.heap."""

    __slots__ = ("id", "kind")

    def __init__(self, kind="obj"):
        self.id = next(_counter)
        self.kind = kind

    def __repr__(self):
        return f"Loc({self.kind}#{self.id})"


class Rec:
    """Heap content of an object with named fields (concrete structure)."""

    __slots__ = ("cls", "fields")

    def __init__(self, cls, fields):
        self.cls, self.fields = cls, dict(fields)

    def set(self, name, v):
        f = dict(self.fields)
        f[name] = v
        return Rec(self.cls, f)

    def __repr__(self):
        return f"Rec({getattr(self.cls, '__name__', self.cls)}, {list(self.fields)})"


class CList:
    """Heap content of a python list whose structure is concrete."""

    __slots__ = ("items",)

    def __init__(self, items):
        self.items = tuple(items)

    def __repr__(self):
        return f"CList({self.items!r})"


class CDict:
    """Heap content of a python dict whose key set is concrete (keys are concrete hashables)."""

    __slots__ = ("items",)

    def __init__(self, items):
        self.items = dict(items)


class Struct:
    """Immutable record value (namedtuple / dataclass instance with symbolic fields)."""

    __slots__ = ("cls", "fields")

    def __init__(self, cls, fields):
        self.cls, self.fields = cls, dict(fields)

    def __repr__(self):
        return f"Struct({getattr(self.cls, '__name__', self.cls)})"


class ExcVal:
    """A raised exception: concrete class, opaque payload."""

    __slots__ = ("cls", "args", "where")

    def __init__(self, cls, args=(), where=""):
        self.cls, self.args, self.where = cls, args, where

    def __repr__(self):
        return f"ExcVal({self.cls.__name__} @ {self.where})"


# -------------------------------------------------------------------------------- conversions
_str_consts: dict = {}


def str_const(s: str):
    c = _str_consts.get(s)
    if c is None:
        c = z3.Const("str!" + s, Str.z3sort())
        _str_consts[s] = c
    return c


def str_axioms():
    cs = list(_str_consts.values())
    return [z3.Distinct(*cs)] if len(cs) > 1 else []


def zbool(v):
    if isinstance(v, SBool):
        return v.z
    if isinstance(v, bool):
        return z3.BoolVal(v)
    if z3.is_expr(v):
        return v
    raise Unsupported(f"not a Bool: {v!r}")


def zint(v):
    if isinstance(v, SInt):
        return v.z
    if isinstance(v, bool):
        return z3.IntVal(int(v))
    if isinstance(v, int):
        return z3.IntVal(v)
    if z3.is_expr(v):
        return v
    raise Unsupported(f"not an Int: {v!r}")


def zreal(v):
    if isinstance(v, SReal):
        return v.z
    if isinstance(v, SInt):
        return z3.ToReal(v.z)
    if isinstance(v, bool):
        return z3.RealVal(int(v))
    if isinstance(v, int):
        return z3.RealVal(v)
    if isinstance(v, Fraction):
        return z3.RealVal(v.numerator) / z3.RealVal(v.denominator) if v.denominator != 1 else z3.RealVal(v.numerator)
    if z3.is_expr(v):
        return z3.ToReal(v) if v.sort() == z3.IntSort() else v
    raise Unsupported(f"not a Real: {v!r}")


def is_real_like(v):
    return isinstance(v, (SReal, Fraction)) or (z3.is_expr(v) and v.sort() == z3.RealSort())


def num_pair(a, b):
    real = is_real_like(a) or is_real_like(b)
    if real:
        return zreal(a), zreal(b), True
    return zint(a), zint(b), False


def to_z3(v, t: T):
    if isinstance(t, _NoneT) and v is None:
        return t.const()
    if isinstance(t, _Int):
        return zint(v)
    if isinstance(t, _Bool):
        return zbool(v)
    if isinstance(t, _Real):
        return zreal(v)
    if isinstance(t, _Str):
        if isinstance(v, SStr):
            return v.z
        if isinstance(v, str):
            return str_const(v)
    if isinstance(t, Ref):
        if v is None and getattr(t, "null", None) is not None:
            return t.null
        if isinstance(v, SRef):
            if v.t is not t and v.t.z3sort() != t.z3sort():
                raise Unsupported(f"sort mismatch {v.t} vs {t}")
            return v.z
    if isinstance(t, Enum):
        if isinstance(v, SEnum):
            return v.z
        if isinstance(v, enum.Enum) and v in t.consts:
            return t.consts[v]
    if isinstance(t, Tup) and isinstance(v, tuple) and len(v) == len(t.ts):
        return t.pack(v)
    if isinstance(t, Set) and isinstance(v, SSet) and not t.ordered:
        return v.has
    if z3.is_expr(v):
        return v
    raise Unsupported(f"cannot convert {v!r} to {t!r}")


def default_z3(t: T):
    s = t.z3sort()
    if isinstance(t, _Int):
        return z3.IntVal(0)
    if isinstance(t, _Bool):
        return z3.BoolVal(False)
    if isinstance(t, _Real):
        return z3.RealVal(0)
    if isinstance(t, Enum):
        return t.consts[t.members[0]]
    if isinstance(t, Tup):
        return t.pack(tuple(default_z3(x) for x in t.ts))
    return z3.Const(f"dflt!{s.name()}", s)


def type_of(v):
    """T descriptor of a value (None if not describable)."""
    if isinstance(v, bool):
        return Bool
    if isinstance(v, int):
        return Int
    if isinstance(v, Fraction):
        return Real
    if isinstance(v, str):
        return Str
    if isinstance(v, enum.Enum):
        return Enum(type(v))
    if isinstance(v, (SBool, SInt, SReal, SStr)):
        return v.t
    if isinstance(v, (SRef, SEnum)):
        return v.t
    if isinstance(v, SSeq):
        return Seq(v.te)
    if isinstance(v, SMap):
        return Map(v.tk, v.tv, v.keys is not None)
    if isinstance(v, SSet):
        return Set(v.tk, v.keys is not None)
    if isinstance(v, tuple) and v:
        ts = [type_of(x) for x in v]
        if all(t is not None and not isinstance(t, (Seq, Map, Set)) for t in ts):
            return Tup(*ts)
    return None


def is_symbolic(v):
    return isinstance(v, SV)


# --------------------------------------------------------------------- contract-level helpers
def And(*xs):
    return SBool(z3.And([zbool(x) for x in xs]))


def Or(*xs):
    return SBool(z3.Or([zbool(x) for x in xs]))


def Not(x):
    return SBool(z3.Not(zbool(x)))


def Implies(a, b):
    return SBool(z3.Implies(zbool(a), zbool(b)))


def Iff(a, b):
    return SBool(zbool(a) == zbool(b))


def Ite(c, a, b):
    ta = type_of(a) or type_of(b)
    if ta is None:
        raise Unsupported("Ite on non-describable values")
    if (isinstance(ta, _Int) and is_real_like(b)) or (isinstance(ta, _Real)):
        return SReal(z3.If(zbool(c), zreal(a), zreal(b)))
    return ta.wrap(z3.If(zbool(c), to_z3(a, ta), to_z3(b, ta)))


def ForAll(ts, f, patterns=None):
    """ForAll([T...], lambda x, ...: SBool)"""
    if isinstance(ts, T):
        ts = [ts]
    vs = [t.fresh("q") for t in ts]
    body = zbool(f(*vs))
    zs = [v.z for v in vs]
    return SBool(z3.ForAll(zs, body))


def Exists(ts, f):
    if isinstance(ts, T):
        ts = [ts]
    vs = [t.fresh("q") for t in ts]
    body = zbool(f(*vs))
    return SBool(z3.Exists([v.z for v in vs], body))


def uf(name, argTs, resT):
    """uninterpreted function usable from contracts: returns python callable on values"""
    f = z3.Function(name, *[t.z3sort() for t in argTs], resT.z3sort())

    def call(*args):
        return resT.wrap(f(*[to_z3(a, t) for a, t in zip(args, argTs)]))

    call.decl = f
    return call

"""pyvc symbolic executor: interprets the `ast` of real /repo functions over symbolic values,
splitting paths, and collects proof obligations (asserts, callee preconditions, loop
invariants, post-conditions).  See DESIGN.md section 2.
"""
from __future__ import annotations
import ast
import builtins as _bi
import enum
import hashlib
import inspect
import textwrap
import types
from fractions import Fraction

import z3

from .values import *  # noqa
from .values import _Int, _Bool, _Real, _Str
from .state import State, Frame

NORMAL = None


class LoopSpec:
    """Cut-point specification of one loop (keyed by function qualname + loop ordinal)."""

    def __init__(self, inv, modifies=None, types=None, ghost=None, unroll=None, opaque=()):
        self.opaque = tuple(opaque)   # locals abstracted to an opaque value (e.g. error-report state)
        self.inv = inv            # callable(L) -> SBool | [(label, SBool)]
        self.modifies = modifies  # list of local names / "self.field"; None = syntactic
        self.types = types or {}  # name -> T for havoc
        self.unroll = unroll


class L:
    """View of the locals at a loop head, handed to invariants."""

    def __init__(self, eng, st, extra):
        object.__setattr__(self, "_eng", eng)
        object.__setattr__(self, "_st", st)
        object.__setattr__(self, "_extra", extra)

    def __getattr__(self, name):
        ex = object.__getattribute__(self, "_extra")
        if name in ex:
            return ex[name]
        st = object.__getattribute__(self, "_st")
        eng = object.__getattribute__(self, "_eng")
        if name == "st":
            return st
        if name in st.frame.vars:
            v = st.frame.vars[name]
            if isinstance(v, Loc) and isinstance(st.load(v), Rec):
                return v        # objects stay references; use L.field(obj, name)
            return eng.deref(st, v)
        raise AttributeError(name)

    def head(self, ordinal):
        """view of the state at the head of the enclosing loop `ordinal` in the current iteration (while loops and symbolic for loops)"""
        st = object.__getattribute__(self, "_st")
        return st.ghost[("head", ordinal)]

    def field(self, obj, name):
        st = object.__getattribute__(self, "_st")
        eng = object.__getattribute__(self, "_eng")
        return eng.deref(st, st.getfield(obj, name))

    def seq(self, name, te):
        """local `name` viewed as a symbolic sequence of element type te (also when still a concrete list)"""
        st = object.__getattribute__(self, "_st")
        eng = object.__getattribute__(self, "_eng")
        return eng.B.as_sseq(eng, st, getattr(self, name), te)


class BoundMethod:
    __slots__ = ("selfv", "func")

    def __init__(self, selfv, func):
        self.selfv, self.func = selfv, func


class SymMethod:
    """method of an opaque reference: contract or uninterpreted observer"""
    __slots__ = ("selfv", "name")

    def __init__(self, selfv, name):
        self.selfv, self.name = selfv, name


class ContainerMethod:
    __slots__ = ("target", "name")

    def __init__(self, target, name):
        self.target, self.name = target, name


class Closure:
    __slots__ = ("node", "frame", "qualname", "defaults")

    def __init__(self, node, frame, qualname, defaults=()):
        self.node, self.frame, self.qualname, self.defaults = node, frame, qualname, defaults


class Engine:
    MAX_PATHS = 20000
    MAX_DEPTH = 12
    UNROLL = 3

    def __init__(self):
        self.contracts = {}      # python function object -> generator(engine, st, args, kwargs)
        self.loops = {}          # (qualname, ordinal) -> LoopSpec
        self.sources = {}        # qualname -> sha256 of verified/inlined source text
        self.inlined = set()
        self.assumed = set()     # contracts used at call sites
        self.noinline = set()
        self.partial_classes = set()
        self.loops_used = set()
        self.npaths = 0
        self.axioms = []         # global background axioms (z3), listed as trusted
        self.class_models = {}   # real class -> T.Ref for isinstance on SRef
        self.feas_timeout = 1500
        self._ast_cache = {}
        self.obligations = []
        self._obl_ids = set()
        self._obl_keep = []
        self._inc = None
        self.nfeas = 0
        self.abstracted = set()  # locals replaced by an opaque value (reported in evidence)
        self.lift = {}           # id(real global object) -> symbolic value standing for it (singletons such as BOOL, TIME)
        self.yield_hooks = {}    # qualname of a generator function -> hook(engine, st, value)
        from . import builtins as B
        self.B = B
        B.install(self)
        State.on_oblige = self._register_obligation

    # ===================================================================== source handling
    def get_ast(self, fn):
        key = fn
        if key in self._ast_cache:
            return self._ast_cache[key]
        try:
            src = inspect.getsource(fn)
        except (OSError, TypeError) as e:
            raise Unsupported(f"no source for {fn!r}: {e}")
        src = textwrap.dedent(src)
        tree = ast.parse(src)
        node = tree.body[0]
        if not isinstance(node, (ast.FunctionDef,)):
            raise Unsupported(f"{fn!r} is not a plain function")
        qn = f"{fn.__module__}.{fn.__qualname__}"
        self.sources[qn] = hashlib.sha256(src.encode()).hexdigest()[:16]
        # number the loops in source order
        ordinal = 0
        for n in ast.walk(node):
            pass
        for n in _loops_in_order(node):
            n._loop_ordinal = ordinal
            ordinal += 1
        try:
            first = inspect.getsourcelines(fn)[1]
        except OSError:
            first = 1
        node._first_line = first
        node._qualname = qn
        self._ast_cache[key] = node
        return node

    # ===================================================================== feasibility
    def feasible(self, st, extra=None):
        """incremental feasibility check: one solver whose assertion stack mirrors the current
        path condition (depth-first exploration mostly extends / backtracks a prefix)"""
        inc = self._inc
        nax = len(self.axioms) + len(str_axioms())
        if inc is None or inc["nax"] != nax:
            sol = z3.Solver()
            sol.set("timeout", self.feas_timeout)
            for a in self.axioms:
                if not _has_quantifier(a):      # quantified background axioms are left to the final obligations
                    sol.add(a)
            for a in str_axioms():
                sol.add(a)
            inc = self._inc = {"solver": sol, "stack": [], "nax": nax}
        sol, stack = inc["solver"], inc["stack"]
        # the stack holds the asserted formulas themselves (not just their ids): a z3 AST id can be reused once the node is
        # garbage collected, and a stale match would leave constraints of another path on the solver
        pc = st.pc
        k = 0
        while k < len(stack) and k < len(pc) and (stack[k] is pc[k] or stack[k].eq(pc[k])):
            k += 1
        while len(stack) > k:
            sol.pop()
            stack.pop()
        for j in range(k, len(pc)):
            sol.push()
            if not _has_quantifier(pc[j]):
                sol.add(pc[j])   # quantified facts are dropped: over-approximates feasibility (sound)
            stack.append(pc[j])
        if extra is None:
            return self._check_patiently(sol) != z3.unsat
        sol.push()
        if not _has_quantifier(extra):
            sol.add(extra)
        r = self._check_patiently(sol)
        sol.pop()
        self.nfeas += 1
        return r != z3.unsat

    def _check_patiently(self, sol):
        """a quantifier-free feasibility query that times out (busy machine, nonlinear terms) is retried with a long budget,
        so that which paths are explored does not depend on the load; a final `unknown` counts as feasible (sound)"""
        r = sol.check()
        if r == z3.unknown:
            sol.set("timeout", self.feas_timeout * 20)
            r = sol.check()
            sol.set("timeout", self.feas_timeout)
        return r

    def branch(self, st, cond, note=""):
        """fork on a z3 Bool; yields (state, python bool) for each feasible side"""
        cond = z3.simplify(cond)
        if z3.is_true(cond):
            yield st, True
            return
        if z3.is_false(cond):
            yield st, False
            return
        ncond = z3.Not(cond)
        ft = self.feasible(st, cond)
        ff = self.feasible(st, ncond) if ft else True   # pc is feasible, so one side is
        if ft and ff:
            self.npaths += 1
            if self.npaths > self.MAX_PATHS:
                raise Unsupported("path explosion")
            s2 = st.fork()
            yield st.assume(cond).note(note + ":T"), True
            yield s2.assume(ncond).note(note + ":F"), False
        elif ft:
            yield st.assume(cond), True
        elif ff:
            yield st.assume(ncond), False
        else:
            self.sink(st)  # dead path: keep its obligations

    def heap_field(self, st, t, name):
        """current value of the heap array of a mutable field of an opaque class (Boogie style: one array Ref -> T per field)"""
        key = ("mf", t.name, name)
        if key not in st.ghost:
            st.ghost[key] = z3.Array(f"heap0.{t.name}.{name}", t.z3sort(), t.mutable[name].z3sort())
        return st.ghost[key]

    def _register_obligation(self, o, tags):
        if id(o) not in self._obl_ids:
            self._obl_ids.add(id(o))
            self._obl_keep.append(o)
            self.obligations.append(o + (tags,))

    def sink(self, st):
        """deposit the obligations of a finished (or dead / cut) path"""
        for o in st.obls:
            if id(o) not in self._obl_ids:
                self._obl_ids.add(id(o))
                self._obl_keep.append(o)   # keep alive: ids must not be reused
                self.obligations.append(o + (st.tags,))

    # ===================================================================== helpers on values
    def deref(self, st, v):
        return st.load(v) if isinstance(v, Loc) else v

    def force(self, st, v):
        """resolve guarded unions by forking; yields (st, non-union value)"""
        if not isinstance(v, SUnion):
            yield st, v
            return
        feas = []
        for g, alt in v.alts:
            if self.feasible(st, g):
                feas.append((g, alt))
        for idx, (g, alt) in enumerate(feas):
            s = st.fork() if idx < len(feas) - 1 else st
            s.assume(g)
            if len(feas) > 1:
                s.note("U%d" % idx)
            yield from self.force(s, alt)

    def truth(self, st, v, note=""):
        """python truthiness; yields (st, bool)"""
        if isinstance(v, SUnion):
            for s, a in self.force(st, v):
                yield from self.truth(s, a, note)
            return
        if isinstance(v, bool):
            yield st, v
            return
        if v is None:
            yield st, False
            return
        if v is OPAQUE:
            yield from self.branch(st, Bool.fresh("opaque").z, note)
            return
        if isinstance(v, SBool):
            yield from self.branch(st, v.z, note)
            return
        if isinstance(v, (SInt, SReal)):
            yield from self.branch(st, v.z != 0, note)
            return
        if isinstance(v, SStr):
            yield from self.branch(st, v.z != str_const(""), note)
            return
        if isinstance(v, self.B.SG.SegStr):
            yield st, len(v.segs) > 0
            return
        if isinstance(v, self.B.X.SExt):
            yield from self.branch(st, z3.Not(z3.And(v.finite(), v.v == 0)), note)     # only a finite zero is falsy (inf and nan are truthy)
            return
        if isinstance(v, float):
            yield st, bool(v)
            return
        if isinstance(v, (int, Fraction, str, tuple, frozenset, list, dict, set)):
            yield st, bool(v)
            return
        if isinstance(v, Loc):
            c = st.load(v)
            if isinstance(c, Rec):
                yield st, True
                return
            if isinstance(c, CList):
                yield st, len(c.items) > 0
                return
            if isinstance(c, CDict):
                yield st, len(c.items) > 0
                return
            v = c
        if isinstance(v, SSeq):
            yield from self.branch(st, v.n > 0, note)
            return
        if isinstance(v, self.B.FSet):
            yield from self.branch(st, z3.Or(list(v.mem.values())), note)
            return
        if isinstance(v, (self.B.CSet,)):
            yield st, len(v.items) > 0
            return
        if isinstance(v, self.B.PendingEmpty):
            yield st, False
            return
        if isinstance(v, (SMap, SSet)):
            if v.keys is not None:
                yield from self.branch(st, v.keys.n > 0, note)
                return
            raise Unsupported("truth value of unordered symbolic map/set")
        if isinstance(v, SRef) and getattr(v.t, "null", None) is not None:
            for s2, isnull in self.branch(st, v.z == v.t.null, note):
                yield s2, not isnull
            return
        if isinstance(v, SRef) and getattr(v.t, "iter_items", None) is not None:
            # a reference standing for a python list / tuple: empty is falsy
            n = self.B._uf(f"{v.t.name}.items.len", v.t.z3sort(), z3.IntSort())(v.z)
            st.assume(n >= 0)
            yield from self.branch(st, n > 0, note)
            return
        if isinstance(v, (SRef, SEnum, Struct, BoundMethod, Closure, ExcVal)):
            yield st, True
            return
        if isinstance(v, enum.Enum) or inspect.isclass(v) or callable(v):
            yield st, bool(v)
            return
        raise Unsupported(f"truth value of {v!r}")

    def as_bool_value(self, st, v):
        """truthiness as a value without forking where possible (SBool / bool)"""
        if isinstance(v, (bool, SBool)):
            return v
        if v is None:
            return False
        if isinstance(v, (SInt, SReal)):
            return SBool(v.z != 0)
        return None

    def fresh_like(self, st, v, name):
        if isinstance(v, bool):
            return Bool.fresh(name)
        if isinstance(v, int):
            return Int.fresh(name)
        if isinstance(v, Fraction):
            return Real.fresh(name)
        if isinstance(v, (SBool, SInt, SReal, SStr, SRef, SEnum)):
            return v.t.fresh(name)
        if isinstance(v, self.B.X.SExt) or isinstance(v, float):
            r = self.B.X.Ext.fresh(name)
            st.assume(r.wf())
            return r
        if isinstance(v, SSeq):
            r = Seq(v.te).fresh(name)
            st.assume(r.n >= 0)
            return r
        if isinstance(v, SMap):
            r = Map(v.tk, v.tv, v.keys is not None).fresh(name)
            if r.keys is not None:
                st.assume(r.keys.n >= 0)
                self.B.assume_keys_inv(st, r)
            return r
        if isinstance(v, SSet):
            r = Set(v.tk, v.keys is not None).fresh(name)
            if r.keys is not None:
                st.assume(r.keys.n >= 0)
                self.B.assume_keys_inv(st, r)
            return r
        if isinstance(v, tuple):
            return tuple(self.fresh_like(st, x, f"{name}.{i}") for i, x in enumerate(v))
        if isinstance(v, SUnion):
            # keep shape: fresh guard partition
            tag = z3.Int(fresh_name(name + ".tag"))
            alts = []
            for i, (g, a) in enumerate(v.alts):
                gg = tag == i if 0 < i < len(v.alts) - 1 else (tag <= 0 if i == 0 else tag >= i)
                alts.append((gg, None if a is None else self.fresh_like(st, a, name)))
            return SUnion(alts)
        if v is None:
            return None
        raise Unsupported(f"cannot havoc {name} = {v!r}; give LoopSpec.types")

    def fresh_of(self, st, t, name):
        v = t.fresh(name)
        self.assume_wf(st, v)
        return v

    def assume_wf(self, st, v):
        if isinstance(v, self.B.X.SExt):
            st.assume(v.wf())
        elif isinstance(v, SSeq):
            st.assume(v.n >= 0)
        elif isinstance(v, (SMap, SSet)) and v.keys is not None:
            st.assume(v.keys.n >= 0)
            self.B.assume_keys_inv(st, v)
        elif isinstance(v, SUnion):
            for g, a in v.alts:
                self.assume_wf(st, a)
        elif isinstance(v, tuple):
            for a in v:
                self.assume_wf(st, a)

    # ===================================================================== statements
    def exec_block(self, stmts, st):
        if not stmts:
            yield st, NORMAL
            return
        head, rest = stmts[0], stmts[1:]
        for s1, out in self.exec_stmt(head, st):
            if out is NORMAL:
                yield from self.exec_block(rest, s1)
            else:
                yield s1, out

    def exec_stmt(self, node, st):
        m = getattr(self, "st_" + type(node).__name__, None)
        if m is None:
            raise Unsupported(f"statement {type(node).__name__} at line {self.line(st, node)}")
        yield from m(node, st)

    def line(self, st, node):
        fn = st.frame.vars.get("__fnode__")
        base = getattr(fn, "_first_line", 1) if fn is not None else 1
        return base + getattr(node, "lineno", 1) - 1

    def where(self, st, node):
        return f"{st.frame.fname}:{self.line(st, node)}"

    def st_Expr(self, node, st):
        if isinstance(node.value, ast.Constant):  # docstring
            yield st, NORMAL
            return
        for s, v in self.ev(node.value, st):
            if isinstance(v, ExcVal):
                yield s, ("raise", v)
            else:
                yield s, NORMAL

    def st_Pass(self, node, st):
        yield st, NORMAL

    def st_Break(self, node, st):
        yield st, ("break",)

    def st_Continue(self, node, st):
        yield st, ("continue",)

    def st_Return(self, node, st):
        if node.value is None:
            yield st, ("return", None)
            return
        for s, v in self.ev(node.value, st):
            if isinstance(v, ExcVal):
                yield s, ("raise", v)
            else:
                yield s, ("return", v)

    def st_Assert(self, node, st):
        for s, v in self.ev(node.test, st):
            if isinstance(v, ExcVal):
                yield s, ("raise", v)
                continue
            if getattr(self, "assert_raises", False):
                # asserts used as argument validation (the unit allows AssertionError as a documented rejection)
                for s2, b in self.truth(s, v, f"assert{self.line(s, node)}"):
                    if b:
                        yield s2, NORMAL
                    else:
                        yield s2, ("raise", ExcVal(AssertionError, (), self.where(s2, node)))
                continue
            bv = self.as_bool_value(s, v)
            if isinstance(bv, SBool):
                s.oblige(f"assert@{self.where(s, node)}", bv.z)
                s.assume(bv.z)
                yield s, NORMAL
                continue
            for s2, b in self.truth(s, v, f"assert{self.line(s, node)}"):
                if b:
                    yield s2, NORMAL
                else:
                    s2.oblige(f"assert@{self.where(s2, node)}", z3.BoolVal(False))
                    yield s2, ("raise", ExcVal(AssertionError, (), self.where(s2, node)))

    def st_Raise(self, node, st):
        if node.exc is None:
            cur = st.frame.vars.get("__exc__")
            if cur is None:
                raise Unsupported("bare raise outside handler")
            yield st, ("raise", cur)
            return
        for s, v in self.ev(node.exc, st):
            if isinstance(v, ExcVal):
                if not v.where:
                    v = ExcVal(v.cls, v.args, self.where(s, node))
                yield s, ("raise", v)
            elif inspect.isclass(v) and issubclass(v, BaseException):
                yield s, ("raise", ExcVal(v, (), self.where(s, node)))
            else:
                raise Unsupported(f"raise of {v!r}")

    merge_ifs = True

    def st_If(self, node, st):
        for s, v in self.ev(node.test, st):
            if isinstance(v, ExcVal):
                yield s, ("raise", v)
                continue
            bv = self.as_bool_value(s, v)
            if self.merge_ifs and isinstance(bv, SBool) and _mergeable_body(node.body) and _mergeable_body(node.orelse):
                g = z3.simplify(bv.z)
                if not z3.is_true(g) and not z3.is_false(g) and self.feasible(s, g) and self.feasible(s, z3.Not(g)):
                    base_pc = len(s.pc)
                    sa = s.fork().assume(g)
                    sb = s.fork().assume(z3.Not(g))
                    self._narrow(node.test, sa, True)
                    self._narrow(node.test, sb, False)
                    ra = list(self.exec_block(node.body, sa))
                    rb = list(self.exec_block(node.orelse, sb))
                    m = None
                    if len(ra) == 1 and len(rb) == 1 and ra[0][1] is NORMAL and rb[0][1] is NORMAL:
                        m = self.merge_states(ra[0][0], rb[0][0], g, base_pc)
                    if m is not None:
                        yield m, NORMAL
                    else:
                        for x in ra:
                            x[0].note(f"L{self.line(s, node)}:T")
                            yield x
                        for x in rb:
                            x[0].note(f"L{self.line(s, node)}:F")
                            yield x
                    continue
            for s2, b in self.truth(s, v, f"L{self.line(s, node)}"):
                self._narrow(node.test, s2, b)
                yield from self.exec_block(node.body if b else node.orelse, s2)

    def _narrow(self, test, st, outcome):
        """after branching on `x is None` / `x is not None` / `x` : an optional local is narrowed to the alternative the branch selects"""
        if isinstance(test, ast.Name) and outcome and isinstance(st.frame.vars.get(test.id), SUnion):
            alts = [(g, a) for g, a in st.frame.vars[test.id].alts if a is not None]
            if len(alts) == 1:
                st.frame.vars[test.id] = alts[0][1]
            return
        if not (isinstance(test, ast.Compare) and len(test.ops) == 1 and isinstance(test.ops[0], (ast.Is, ast.IsNot))
                and isinstance(test.left, ast.Name) and isinstance(test.comparators[0], ast.Constant) and test.comparators[0].value is None):
            return
        name = test.left.id
        v = st.frame.vars.get(name)
        if not isinstance(v, SUnion):
            return
        is_none = isinstance(test.ops[0], ast.Is) == outcome
        if is_none:
            st.frame.vars[name] = None
            return
        alts = [(g, a) for g, a in v.alts if a is not None]
        if len(alts) == 1:
            st.frame.vars[name] = alts[0][1]
        elif alts:
            st.frame.vars[name] = SUnion(alts)

    def merge_value(self, g, a, b, sa=None, sb=None):
        if a is b:
            return a
        if a is POISON or b is POISON:
            return None
        if (a is None or b is None or isinstance(a, SUnion) or isinstance(b, SUnion)) and not isinstance(a, Loc) and not isinstance(b, Loc):
            # optional values: join into a guarded union (None alternatives collapsed; non-None alternatives merged when possible)
            aa = a.alts if isinstance(a, SUnion) else [(z3.BoolVal(True), a)]
            bb = b.alts if isinstance(b, SUnion) else [(z3.BoolVal(True), b)]
            none_g, vals = [], []
            for gg, alts in ((g, aa), (z3.Not(g), bb)):
                for ga, va in alts:
                    if isinstance(va, (Loc, Poison)):
                        return None
                    if va is None:
                        none_g.append(z3.And(gg, ga))
                    else:
                        vals.append((z3.simplify(z3.And(gg, ga)), va))
            if len(vals) == 2:
                m = self.merge_value(vals[0][0], vals[0][1], vals[1][1])
                if m is not None and not isinstance(m, SUnion):
                    vals = [(z3.simplify(z3.Or(vals[0][0], vals[1][0])), m)]
            out = ([(z3.simplify(z3.Or(none_g)), None)] if none_g else []) + vals
            if len(out) == 1:
                return out[0][1]
            if len(out) > 4:
                return None
            return SUnion(out)
        num = (int, Fraction, SInt, SReal)
        X = self.B.X
        if (X.is_extlike(a) or X.is_extlike(b)) and not (isinstance(a, float) and isinstance(b, float)):
            ea, eb = X.to_ext(a), X.to_ext(b)
            if ea is None or eb is None:
                return None
            return X.simplify(X.ite(g, ea, eb))
        if isinstance(a, bool) and isinstance(b, bool) and a == b:
            return a
        if isinstance(a, (bool, SBool)) and isinstance(b, (bool, SBool)):
            return SBool(z3.If(g, zbool(a), zbool(b)))
        if isinstance(a, num) and isinstance(b, num) and not isinstance(a, bool) and not isinstance(b, bool):
            if not isinstance(a, SV) and not isinstance(b, SV) and a == b and type(a) is type(b):
                return a
            x, y, real = num_pair(a, b)
            if real != (is_real_like(a) and is_real_like(b)) and real:
                return None   # int on one side, Fraction on the other: python types differ
            return (SReal if real else SInt)(z3.If(g, x, y))
        if isinstance(a, SRef) and isinstance(b, SRef) and a.t.z3sort() == b.t.z3sort():
            return SRef(a.t, z3.If(g, a.z, b.z))
        if isinstance(a, (SEnum, enum.Enum)) and isinstance(b, (SEnum, enum.Enum)):
            t = a.t if isinstance(a, SEnum) else (b.t if isinstance(b, SEnum) else Enum(type(a)))
            try:
                return SEnum(t, z3.If(g, to_z3(a, t), to_z3(b, t)))
            except Unsupported:
                return None
        if isinstance(a, self.B.FSet) and isinstance(b, self.B.FSet) and a.universe == b.universe:
            return self.B.FSet(a.universe, {k: z3.simplify(z3.If(g, a.mem[k], b.mem[k])) if not z3.eq(a.mem[k], b.mem[k]) else a.mem[k]
                                            for k in a.universe})
        if isinstance(a, SSeq) and isinstance(b, SSeq) and a.te.z3sort() == b.te.z3sort():
            return SSeq(a.te, z3.If(g, a.arr, b.arr), z3.If(g, a.n, b.n))
        if isinstance(a, SSet) and isinstance(b, SSet) and a.keys is None and b.keys is None and a.tk.z3sort() == b.tk.z3sort():
            return SSet(a.tk, z3.If(g, a.has, b.has))
        if isinstance(a, SMap) and isinstance(b, SMap) and a.keys is None and b.keys is None and a.tk.z3sort() == b.tk.z3sort():
            return SMap(a.tk, a.tv, z3.If(g, a.has, b.has), z3.If(g, a.val, b.val))
        if isinstance(a, tuple) and isinstance(b, tuple) and len(a) == len(b):
            r = [self.merge_value(g, x, y) for x, y in zip(a, b)]
            return None if any(x is None for x in r) else tuple(r)
        if isinstance(a, Rec) and isinstance(b, Rec) and a.cls is b.cls and a.fields.keys() == b.fields.keys():
            f = {}
            for k in a.fields:
                m = self.merge_value(g, a.fields[k], b.fields[k])
                if m is None:
                    return None
                f[k] = m
            return Rec(a.cls, f)
        if isinstance(a, CList) and isinstance(b, CList) and len(a.items) == len(b.items):
            r = [self.merge_value(g, x, y) for x, y in zip(a.items, b.items)]
            return None if any(x is None for x in r) else CList(r)
        if isinstance(a, Loc) and isinstance(b, Loc) and a.id == b.id:
            return a
        if not isinstance(a, SV) and not isinstance(b, SV):
            try:
                if type(a) is type(b) and a == b:
                    return a
            except Exception:  # noqa
                pass
        return None

    def merge_states(self, sa, sb, g, base_pc, one_sided_ok=False):
        """join of two states that forked on g at pc length base_pc; None if not mergeable"""
        if len(sa.frames) != len(sb.frames):
            return None
        m = sa.fork()
        for fa, fb, fm in zip(sa.frames, sb.frames, m.frames):
            keys = set(fa.vars) | set(fb.vars)
            for k in keys:
                if k not in fa.vars or k not in fb.vars:
                    # defined on one side only: keep undefined (reading it later is an error anyway)
                    if k.startswith("__"):
                        continue
                    if one_sided_ok:
                        # loop-body temporaries of a guarded iteration: keep the defined value
                        fm.vars[k] = fa.vars.get(k, fb.vars.get(k))
                        continue
                    return None
                v = self.merge_value(g, fa.vars[k], fb.vars[k])
                if v is None and fa.vars[k] is None and fb.vars[k] is None:
                    fm.vars[k] = None
                    continue
                if v is None:
                    if fa.vars[k] is None or fb.vars[k] is None or isinstance(fa.vars[k], Poison) or isinstance(fb.vars[k], Poison):
                        v = POISON     # dead temporaries of different shapes: poisoned, not merged
                    else:
                        return None
                fm.vars[k] = v
        for lid in set(sa.heap) | set(sb.heap):
            if lid not in sa.heap:
                m.heap[lid] = sb.heap[lid]
                continue
            if lid not in sb.heap:
                continue
            v = self.merge_value(g, sa.heap[lid], sb.heap[lid])
            if v is None:
                return None
            m.heap[lid] = v
        ng = z3.Not(g)
        pc = list(sa.pc[:base_pc])
        for c in sa.pc[base_pc + 1:]:
            pc.append(z3.Implies(g, c))
        for c in sb.pc[base_pc + 1:]:
            pc.append(z3.Implies(ng, c))
        m.pc = tuple(pc)
        seen = set(map(id, sa.obls))
        m.obls = sa.obls + tuple(o for o in sb.obls if id(o) not in seen)
        m.tags = tuple(dict.fromkeys(sa.tags + sb.tags))
        gh = {}
        for k in set(sa.ghost) | set(sb.ghost):
            if k not in sa.ghost or k not in sb.ghost:
                return None
            v = self.merge_value(g, sa.ghost[k], sb.ghost[k])
            if v is None:
                return None
            gh[k] = v
        m.ghost = gh
        return m

    def st_Assign(self, node, st):
        for s, v in self.ev(node.value, st):
            if isinstance(v, ExcVal):
                yield s, ("raise", v)
                continue
            yield from self._assign_many(node.targets, v, s)

    def _assign_many(self, targets, v, st):
        if not targets:
            yield st, NORMAL
            return
        for s, out in self.assign(targets[0], v, st):
            if out is NORMAL:
                yield from self._assign_many(targets[1:], v, s)
            else:
                yield s, out

    def st_AnnAssign(self, node, st):
        if node.value is None:
            yield st, NORMAL
            return
        for s, v in self.ev(node.value, st):
            if isinstance(v, ExcVal):
                yield s, ("raise", v)
                continue
            yield from self.assign(node.target, v, s)

    def st_AugAssign(self, node, st):
        load = _as_load(node.target)
        for s, cur in self.ev(load, st):
            if isinstance(cur, ExcVal):
                yield s, ("raise", cur)
                continue
            for s2, rhs in self.ev(node.value, s):
                if isinstance(rhs, ExcVal):
                    yield s2, ("raise", rhs)
                    continue
                # in-place list/set mutation
                if isinstance(cur, Loc) and isinstance(node.op, (ast.Add, ast.BitOr)):
                    c = s2.load(cur)
                    if isinstance(c, (CList, SSeq)) and isinstance(node.op, ast.Add):
                        for s3, r in self.B.container_call(self, s2, cur, "extend", [rhs], {}):
                            yield s3, (("raise", r) if isinstance(r, ExcVal) else NORMAL)
                        continue
                    if isinstance(c, (SSet, self.B.PendingEmpty, self.B.CSet)) and isinstance(node.op, ast.BitOr):
                        for s3, r in self.B.container_call(self, s2, cur, "update", [rhs], {}):
                            yield s3, (("raise", r) if isinstance(r, ExcVal) else NORMAL)
                        continue
                for s3, r in self.binop(s2, node.op, cur, rhs, node):
                    if isinstance(r, ExcVal):
                        yield s3, ("raise", r)
                    else:
                        yield from self.assign(node.target, r, s3)

    def st_Delete(self, node, st):
        def go(targets, s):
            if not targets:
                yield s, NORMAL
                return
            t = targets[0]
            if isinstance(t, ast.Name):
                s.frame.vars.pop(t.id, None)
                yield from go(targets[1:], s)
            elif isinstance(t, ast.Subscript):
                for s1, c in self.ev(t.value, s):
                    for s2, k in self.ev(t.slice, s1):
                        for s3, r in self.B.container_call(self, s2, c, "__delitem__", [k], {}):
                            if isinstance(r, ExcVal):
                                yield s3, ("raise", r)
                            else:
                                yield from go(targets[1:], s3)
            else:
                raise Unsupported("del target")
        yield from go(node.targets, st)

    def st_Global(self, node, st):
        raise Unsupported("global statement")

    def st_Nonlocal(self, node, st):
        raise Unsupported("nonlocal statement")

    def st_Import(self, node, st):
        import importlib
        for a in node.names:
            mod = importlib.import_module(a.name)
            if a.asname:
                st.frame.vars[a.asname] = mod
            else:
                st.frame.vars[a.name.split(".")[0]] = importlib.import_module(a.name.split(".")[0])
        yield st, NORMAL

    def st_ImportFrom(self, node, st):
        import importlib
        mod = importlib.import_module(node.module)
        for a in node.names:
            st.frame.vars[a.asname or a.name] = getattr(mod, a.name)
        yield st, NORMAL

    def st_FunctionDef(self, node, st):
        if node.decorator_list:
            raise Unsupported("decorated inner function")
        st.frame.vars[node.name] = Closure(node, st.frame, st.frame.fname + "." + node.name)
        yield st, NORMAL

    def st_With(self, node, st):
        # only context managers known to be neutral for the verified properties
        for item in node.items:
            src = ast.unparse(item.context_expr)
            if not (src.startswith("warnings.catch_warnings") or src.startswith("catch_warnings")):
                raise Unsupported(f"with {src}")
        yield from self.exec_block(node.body, st)

    def st_Try(self, node, st):
        for s, out in self.exec_block(node.body, st):
            if out is NORMAL:
                gen = self.exec_block(node.orelse, s) if node.orelse else [(s, NORMAL)]
                for s2, out2 in gen:
                    yield from self._finally(node, s2, out2)
            elif out[0] == "raise":
                exc = out[1]
                handled = False
                for h in node.handlers:
                    if h.type is None:
                        match = True
                    else:
                        hs = list(self.ev(h.type, s))
                        if len(hs) != 1:
                            raise Unsupported("except type forks")
                        s, ht = hs[0]
                        hts = ht if isinstance(ht, tuple) else (ht,)
                        match = any(inspect.isclass(x) and issubclass(exc.cls, x) for x in hts)
                    if match:
                        handled = True
                        s.note(f"except{self.line(s, h)}")
                        saved = s.frame.vars.get("__exc__")
                        s.frame.vars["__exc__"] = exc
                        if h.name:
                            s.frame.vars[h.name] = exc
                        for s2, out2 in self.exec_block(h.body, s):
                            if saved is None:
                                s2.frame.vars.pop("__exc__", None)
                            else:
                                s2.frame.vars["__exc__"] = saved
                            yield from self._finally(node, s2, out2)
                        break
                if not handled:
                    yield from self._finally(node, s, out)
            else:
                yield from self._finally(node, s, out)

    def _finally(self, node, st, out):
        if not node.finalbody:
            yield st, out
            return
        for s, fout in self.exec_block(node.finalbody, st):
            yield s, (out if fout is NORMAL else fout)

    # ------------------------------------------------------------------ assignment targets
    def assign(self, target, v, st):
        if isinstance(target, ast.Name):
            st.frame.vars[target.id] = v
            yield st, NORMAL
        elif isinstance(target, (ast.Tuple, ast.List)):
            for s, items in self.unpack(st, v, len(target.elts), target):
                if isinstance(items, ExcVal):
                    yield s, ("raise", items)
                    continue
                yield from self._assign_seq(target.elts, items, s)
        elif isinstance(target, ast.Attribute):
            for s, obj in self.ev(target.value, st):
                if isinstance(obj, ExcVal):
                    yield s, ("raise", obj)
                elif isinstance(obj, Loc) and isinstance(s.load(obj), Rec):
                    s.setfield(obj, target.attr, v)
                    yield s, NORMAL
                elif isinstance(obj, SRef) and target.attr in obj.t.mutable:
                    for s2, vv in self.force(s, v):
                        arr = self.heap_field(s2, obj.t, target.attr)
                        s2.ghost[("mf", obj.t.name, target.attr)] = z3.Store(arr, obj.z, to_z3(vv, obj.t.mutable[target.attr]))
                        yield s2, NORMAL
                elif isinstance(obj, SRef) and obj.t.pycls is not None and \
                        isinstance(inspect.getattr_static(obj.t.pycls, target.attr, None), property) and \
                        inspect.getattr_static(obj.t.pycls, target.attr).fset is not None:
                    # a property of the real class: its setter is real code
                    for s2, r in self.call(s, inspect.getattr_static(obj.t.pycls, target.attr).fset, [obj, v], {}, target):
                        yield s2, (("raise", r) if isinstance(r, ExcVal) else NORMAL)
                else:
                    raise Unsupported(f"attribute store on {obj!r}.{target.attr}")
        elif isinstance(target, ast.Subscript):
            for s, obj in self.ev(target.value, st):
                if isinstance(obj, ExcVal):
                    yield s, ("raise", obj)
                    continue
                for s2, k in self.ev(target.slice, s):
                    if isinstance(k, ExcVal):
                        yield s2, ("raise", k)
                        continue
                    for s3, r in self.B.container_call(self, s2, obj, "__setitem__", [k, v], {}):
                        yield s3, (("raise", r) if isinstance(r, ExcVal) else NORMAL)
        elif isinstance(target, ast.Starred):
            raise Unsupported("starred assignment")
        else:
            raise Unsupported(f"assign target {type(target).__name__}")

    def _assign_seq(self, elts, items, st):
        if not elts:
            yield st, NORMAL
            return
        for s, out in self.assign(elts[0], items[0], st):
            if out is NORMAL:
                yield from self._assign_seq(elts[1:], items[1:], s)
            else:
                yield s, out

    def unpack(self, st, v, n, node):
        """yields (st, list-of-n-values | ExcVal)"""
        for s, v in self.force(st, v):
            c = self.deref(s, v)
            if isinstance(c, tuple):
                items = list(c)
            elif isinstance(c, CList):
                items = list(c.items)
            elif isinstance(c, SSeq):
                for s2, ok in self.branch(s, c.n == n, f"unpack{self.line(s, node)}"):
                    if ok:
                        yield s2, [c.at(i) for i in range(n)]
                    else:
                        yield s2, ExcVal(ValueError, (), self.where(s2, node))
                continue
            elif isinstance(c, (list,)):
                items = list(c)
            else:
                raise Unsupported(f"unpack of {c!r}")
            if len(items) != n:
                yield s, ExcVal(ValueError, (), self.where(s, node))
            else:
                yield s, items

    # ===================================================================== loops
    def st_While(self, node, st):
        spec = self.loops.get((st.frame.fname, getattr(node, "_loop_ordinal", -1)))
        if spec is not None:
            self.loops_used.add((st.frame.fname, getattr(node, "_loop_ordinal", -1)))
        if spec is None or spec.inv is None:
            k = spec.unroll if spec is not None and spec.unroll else self.UNROLL
            yield from self._while_unroll(node, st, k)
            return
        label = f"loop{node._loop_ordinal}@{self.where(st, node)}"
        pre = L(self, st.fork(), {})
        # init
        self._oblige_inv(spec, st, {"_pre": pre}, label + ":init")
        # havoc
        s = st
        self._havoc(node, spec, s)
        self._assume_inv(spec, s, {"_pre": pre})
        s.ghost[("head", node._loop_ordinal)] = L(self, s.fork(), {})      # the state at the head of THIS iteration, for inner loop invariants
        snap = self._frame_snapshot(s)
        for s1, c in self.ev(node.test, s):
            if isinstance(c, ExcVal):
                yield s1, ("raise", c)
                continue
            for s2, b in self.truth(s1, c, f"while{self.line(s1, node)}"):
                if b:
                    for s3, out in self.exec_block(node.body, s2):
                        if out is NORMAL or out[0] == "continue":
                            self._oblige_inv(spec, s3, {"_pre": pre}, label + ":preserve")
                            self._frame_check(node, spec, snap, s3, label)
                            self.sink(s3)
                        elif out[0] == "break":
                            yield s3, NORMAL
                        else:
                            yield s3, out
                else:
                    yield from self.exec_block(node.orelse, s2)

    def _while_unroll(self, node, st, k):
        for s1, c in self.ev(node.test, st):
            if isinstance(c, ExcVal):
                yield s1, ("raise", c)
                continue
            concrete = isinstance(c, bool)
            for s2, b in self.truth(s1, c, f"while{self.line(s1, node)}"):
                if not b:
                    yield from self.exec_block(node.orelse, s2)
                    continue
                if not concrete and k <= 0:
                    # unrolling bound reached on a feasible path: dropped, result is *bounded*
                    self.bounded_used = True
                    self.sink(s2)
                    continue
                for s3, out in self.exec_block(node.body, s2):
                    if out is NORMAL or out[0] == "continue":
                        yield from self._while_unroll(node, s3, k if concrete else k - 1)
                    elif out[0] == "break":
                        yield s3, NORMAL
                    else:
                        yield s3, out

    bounded_used = False

    def _frame_snapshot(self, st):
        return ({k: v for k, v in st.frame.vars.items()}, dict(st.heap), {k: v for k, v in st.ghost.items() if isinstance(k, tuple) and k and k[0] == "mf"})

    def _frame_check(self, node, spec, snap, st, label):
        """the loop body may only write what the cut-point havoced: a write outside the `modifies` clause would make the assumed
        invariant refer to a stale value (unsound), so it is an obligation failure"""
        vars0, heap0 = snap[0], snap[1]
        mf0 = snap[2] if len(snap) > 2 else {}
        names = set(spec.modifies if spec.modifies is not None else _assigned_names(node)) | set(spec.opaque)
        for k, v in st.ghost.items():
            if isinstance(k, tuple) and k and k[0] == "mf" and f"heap:{k[1]}.{k[2]}" not in names:
                if k in mf0 and not z3.eq(mf0[k], v):
                    st.oblige(f"{label}:frame: the loop assigns attribute `{k[2]}` of a {k[1]} object, which is not in its modifies clause", z3.BoolVal(False))
                elif k not in mf0 and not z3.is_const(v):
                    st.oblige(f"{label}:frame: the loop assigns attribute `{k[2]}` of a {k[1]} object, which is not in its modifies clause", z3.BoolVal(False))
        plain = {n for n in names if "." not in n}
        dotted = {n for n in names if "." in n}
        for k, v in st.frame.vars.items():
            if k.startswith("_") or k in plain:
                continue
            if k in vars0 and vars0[k] is not v and not _same_plain(vars0[k], v):
                # a local variable the loop contract does not know: the code under contract has a different shape than the contract
                # describes (e.g. a renamed or newly introduced temporary).  That is a mismatch between contract and code, not a
                # violation of the property: the unit becomes undecided (see verify.run_unit), never failed
                st.oblige(f"{label}:frame-local: the loop assigns the local `{k}`, which the loop contract does not describe", z3.BoolVal(False))
        havoced_locs = set()
        for n in plain:
            v0 = vars0.get(n)
            if isinstance(v0, Loc):
                havoced_locs.add(v0.id)
        for n in dotted:
            base, fld = n.split(".", 1)
            b = vars0.get(base)
            if isinstance(b, Loc) and b.id in heap0 and isinstance(heap0[b.id], Rec):
                havoced_locs.add(("field", b.id, fld))
                f0 = heap0[b.id].fields.get(fld)
                if isinstance(f0, Loc):
                    havoced_locs.add(f0.id)
        for lid, c in st.heap.items():
            if lid not in heap0 or heap0[lid] is c or lid in havoced_locs:
                continue
            if isinstance(c, Rec) and isinstance(heap0[lid], Rec):
                for fld, fv in c.fields.items():
                    if heap0[lid].fields.get(fld) is not fv and not _same_plain(heap0[lid].fields.get(fld), fv) and ("field", lid, fld) not in havoced_locs:
                        st.oblige(f"{label}:frame: the loop writes field `{fld}` of an object, which is not in its modifies clause", z3.BoolVal(False))
                continue
            st.oblige(f"{label}:frame: the loop mutates a container that is not in its modifies clause", z3.BoolVal(False))

    def _inv_items(self, spec, st, extra):
        try:
            r = spec.inv(L(self, st, extra))
        except AttributeError as e:
            # the loop contract names a local the code does not have (renamed / removed temporary): contract and code do not match --
            # undecided, never a verdict
            raise Unsupported(f"contract/code mismatch: the loop contract refers to `{e}` which is not a local of the code at this loop")
        if isinstance(r, (list, tuple)):
            return [(n, zbool(c)) for n, c in r]
        return [("inv", zbool(r))]

    def _oblige_inv(self, spec, st, extra, label):
        for n, c in self._inv_items(spec, st, extra):
            st.oblige(f"{label}:{n}", c)

    def _assume_inv(self, spec, st, extra):
        for n, c in self._inv_items(spec, st, extra):
            st.assume(c)

    def _havoc(self, node, spec, st):
        names = spec.modifies if spec.modifies is not None else _assigned_names(node)
        for name in spec.opaque:
            st.frame.vars[name] = OPAQUE
            self.abstracted.add(f"{st.frame.fname}:{name}")
        for name in names:
            if name in spec.opaque:
                continue
            if name.startswith("heap:"):
                tname, fld = name[5:].split(".", 1)
                t = Ref._registry[tname]
                st.ghost[("mf", tname, fld)] = z3.Array(fresh_name(f"heap.{tname}.{fld}"), t.z3sort(), t.mutable[fld].z3sort())
                continue
            if "." in name and name.split(".", 1)[0] in st.frame.vars and isinstance(st.frame.vars[name.split(".", 1)[0]], Loc):
                selfv = st.frame.vars[name.split(".", 1)[0]]
                fld = name.split(".", 1)[1]
                cur = st.getfield(selfv, fld)
                t = spec.types.get(name)
                if isinstance(cur, Loc):
                    c = st.load(cur)
                    st.store(cur, self.fresh_of(st, t, name) if t else self.fresh_like(st, c, name))
                else:
                    st.setfield(selfv, fld, self.fresh_of(st, t, name) if t else self.fresh_like(st, cur, name))
                continue
            t = spec.types.get(name)
            if name not in st.frame.vars:
                if t is not None:
                    pass  # unbound before the loop, havoced only if typed -- leave unbound
                continue
            cur = st.frame.vars[name]
            if isinstance(cur, Loc):
                c = st.load(cur)
                if isinstance(c, Rec):
                    continue
                st.store(cur, self.fresh_of(st, t, name) if t else self.fresh_like(st, c, name))
            else:
                st.frame.vars[name] = self.fresh_of(st, t, name) if t else self.fresh_like(st, cur, name)

    def st_For(self, node, st):
        for s, itv in self.ev(node.iter, st):
            if isinstance(itv, ExcVal):
                yield s, ("raise", itv)
                continue
            for s1, it in self.B.iterate(self, s, itv):
                # it: list of concrete-structure items, or SSeq
                if isinstance(it, list):
                    yield from self._for_unrolled(node, s1, it, 0)
                else:
                    yield from self._for_symbolic(node, s1, it)

    def _for_unrolled(self, node, st, items, i):
        if i >= len(items):
            yield from self.exec_block(node.orelse, st)
            return
        if isinstance(items[i], self.B.Guarded):
            g, val = items[i].guard, items[i].value
            base_pc = len(st.pc)
            sa = st.fork().assume(g)
            sb = st.fork().assume(z3.Not(g))
            ra = []
            for s1, out in self.assign(node.target, val, sa):
                if out is not NORMAL:
                    ra.append((s1, out))
                else:
                    ra.extend(self.exec_block(node.body, s1))
            m = None
            if len(ra) == 1 and (ra[0][1] is NORMAL or ra[0][1][0] == "continue"):
                # the skipped side must see the loop variable unchanged: bind it there too
                if isinstance(node.target, ast.Name):
                    sb.frame.vars[node.target.id] = ra[0][0].frame.vars.get(node.target.id)
                m = self.merge_states(ra[0][0], sb, g, base_pc, one_sided_ok=True)
            if m is not None:
                yield from self._for_unrolled(node, m, items, i + 1)
                return
            for s2, out2 in ra:
                if out2 is NORMAL or out2[0] == "continue":
                    yield from self._for_unrolled(node, s2, items, i + 1)
                elif out2[0] == "break":
                    yield s2, NORMAL
                else:
                    yield s2, out2
            if self.feasible(sb):
                yield from self._for_unrolled(node, sb, items, i + 1)
            return
        ordn = getattr(node, "_loop_ordinal", None)
        if ordn is not None and (st.frame.fname, ordn) in self.loops:
            # an unrolled loop that has a spec (its sequence happened to be concrete here): inner invariants may
            # still refer to its index / sequence
            try:
                st.frame.vars[f"_loop{ordn}_seq"] = self.B.as_sseq(self, st, list(items))
                st.frame.vars[f"_loop{ordn}_i"] = i
            except Unsupported:
                pass
        for s1, out in self.assign(node.target, items[i], st):
            if out is not NORMAL:
                yield s1, out
                continue
            for s2, out2 in self.exec_block(node.body, s1):
                if out2 is NORMAL or out2[0] == "continue":
                    yield from self._for_unrolled(node, s2, items, i + 1)
                elif out2[0] == "break":
                    yield s2, NORMAL
                else:
                    yield s2, out2

    def _for_symbolic(self, node, st, seq):
        spec = self.loops.get((st.frame.fname, getattr(node, "_loop_ordinal", -1)))
        if spec is not None:
            self.loops_used.add((st.frame.fname, getattr(node, "_loop_ordinal", -1)))
        if spec is not None:
            self.loops_used.add((st.frame.fname, getattr(node, "_loop_ordinal", -1)))
        if spec is None or spec.inv is None:
            k = spec.unroll if spec is not None and spec.unroll else self.UNROLL
            # bounded: lengths 0..k with symbolic elements
            if self.feasible(st, seq.n > k):
                self.bounded_used = True
            for n in range(k + 1):
                if not self.feasible(st, seq.n == n):
                    continue
                s = st.fork()
                s.assume(seq.n == n)
                s.tags = s.tags + (f"bounded(len<={k})",)
                s.note(f"len{self.line(s, node)}={n}")
                yield from self._for_unrolled(node, s, [seq.at(j) for j in range(n)], 0)
            return
        label = f"loop{node._loop_ordinal}@{self.where(st, node)}"
        pre = L(self, st.fork(), {})
        self._oblige_inv(spec, st, {"_i": 0, "_seq": seq, "_pre": pre}, label + ":init")
        s = st
        self._havoc(node, spec, s)
        i = Int.fresh("_i")
        s.assume(i.z >= 0, i.z <= seq.n)
        # enclosing-loop indices stay visible to inner invariants as L._loop<k>_i / L._loop<k>_seq
        s.frame.vars[f"_loop{node._loop_ordinal}_i"] = i
        s.frame.vars[f"_loop{node._loop_ordinal}_seq"] = seq
        self._assume_inv(spec, s, {"_i": i, "_seq": seq, "_pre": pre})
        s.ghost[("head", node._loop_ordinal)] = L(self, s.fork(), {"_i": i, "_seq": seq})
        snap = self._frame_snapshot(s)
        tnames = {n.id for n in ast.walk(node.target) if isinstance(n, ast.Name)}
        for s1, more in self.branch(s, i.z < seq.n, f"for{self.line(s, node)}"):
            if more:
                for s2, out in self.assign(node.target, seq.at(i), s1):
                    if out is not NORMAL:
                        yield s2, out
                        continue
                    snap2 = ({k: v for k, v in snap[0].items() if k not in tnames} | {k: s2.frame.vars[k] for k in tnames if k in s2.frame.vars}, snap[1], snap[2])
                    for s3, out2 in self.exec_block(node.body, s2):
                        if out2 is NORMAL or out2[0] == "continue":
                            self._oblige_inv(spec, s3, {"_i": i + 1, "_seq": seq, "_pre": pre}, label + ":preserve")
                            self._frame_check(node, spec, snap2, s3, label)
                            self.sink(s3)
                        elif out2[0] == "break":
                            yield s3, NORMAL
                        else:
                            yield s3, out2
            else:
                yield from self.exec_block(node.orelse, s1)

    # ===================================================================== expressions
    def ev(self, node, st):
        m = getattr(self, "ex_" + type(node).__name__, None)
        if m is None:
            raise Unsupported(f"expression {type(node).__name__} at {self.where(st, node)}")
        yield from m(node, st)

    def ev_list(self, nodes, st):
        """evaluate expressions left to right; yields (st, [values]) or (st, ExcVal).
        Starred elements are expanded when their structure is concrete."""
        if not nodes:
            yield st, []
            return
        head = nodes[0]
        starred = isinstance(head, ast.Starred)
        for s, v in self.ev(head.value if starred else head, st):
            if isinstance(v, ExcVal):
                yield s, v
                continue
            if starred:
                for s1, items in self.B.iterate(self, s, v):
                    if not isinstance(items, list):
                        items = [StarSeq(items)]
                    for s2, rest in self.ev_list(nodes[1:], s1):
                        yield s2, (rest if isinstance(rest, ExcVal) else items + rest)
            else:
                for s2, rest in self.ev_list(nodes[1:], s):
                    yield s2, (rest if isinstance(rest, ExcVal) else [v] + rest)

    def ex_Constant(self, node, st):
        yield st, node.value

    def ex_Name(self, node, st):
        name = node.id
        fr = st.frame
        if name in fr.vars:
            if fr.vars[name] is POISON:
                raise Unsupported(f"read of {name}, whose value could not be merged at a join")
            yield st, fr.vars[name]
            return
        f = fr
        while True:
            if name in f.cells:
                c = f.cells[name]
                if isinstance(c, Frame):
                    if name in c.vars:
                        yield st, c.vars[name]
                        return
                else:
                    yield st, c
                    return
            break
        # closure chain: enclosing frames recorded in cells["__parent__"]
        p = fr.cells.get("__parent__")
        while p is not None:
            if name in p.vars:
                yield st, p.vars[name]
                return
            p = p.cells.get("__parent__")
        if name in fr.vars.get("__locals_declared__", ()):
            st.oblige(f"defined({name})@{self.where(st, node)}", z3.BoolVal(False))
            yield st, ExcVal(UnboundLocalError, (name,), self.where(st, node))
            return
        if name in fr.globals:
            v = fr.globals[name]
            yield st, self.lift.get(id(v), v) if self.lift else v
            return
        if hasattr(_bi, name):
            yield st, getattr(_bi, name)
            return
        yield st, ExcVal(NameError, (name,), self.where(st, node))

    def ex_JoinedStr(self, node, st):
        # f-strings are only used for messages in most of the verified code: opaque, unless the unit asks for exact text
        if not getattr(self, "exact_strings", False):
            yield st, Str.fresh("fstr")
            return

        def go(parts, s, acc):
            if not parts:
                try:
                    yield s, self.B.SG.concat(acc) if acc else ""
                except Unsupported:
                    yield s, Str.fresh("fstr")
                return
            p = parts[0]
            if isinstance(p, ast.Constant):
                yield from go(parts[1:], s, acc + [p.value])
                return
            if p.format_spec is not None:
                yield s, Str.fresh("fstr")
                return
            for s1, v in self.ev(p.value, s):
                if isinstance(v, ExcVal):
                    yield s1, v
                    continue
                for s2, txt in self.call(s1, str, [v], {}, node):
                    if isinstance(txt, ExcVal):
                        yield s2, txt
                    elif isinstance(txt, (str, self.B.SG.SegStr)):
                        yield from go(parts[1:], s2, acc + [txt])
                    else:
                        yield s2, Str.fresh("fstr")
        yield from go(list(node.values), st, [])

    def ex_Tuple(self, node, st):
        for s, vs in self.ev_list(node.elts, st):
            if isinstance(vs, ExcVal):
                yield s, vs
            elif any(isinstance(x, StarSeq) for x in vs):
                yield s, self.B.concat_star(self, s, vs)
            else:
                yield s, tuple(vs)

    def ex_List(self, node, st):
        for s, vs in self.ev_list(node.elts, st):
            if isinstance(vs, ExcVal):
                yield s, vs
            elif any(isinstance(x, StarSeq) for x in vs):
                yield s, s.alloc(self.B.concat_star(self, s, vs), "list")
            else:
                yield s, s.alloc(CList(vs), "list")

    def ex_Set(self, node, st):
        for s, vs in self.ev_list(node.elts, st):
            if isinstance(vs, ExcVal):
                yield s, vs
            else:
                yield from self.B.make_set(self, s, vs)

    def ex_Dict(self, node, st):
        if any(k is None for k in node.keys):
            raise Unsupported("dict unpacking")
        for s, ks in self.ev_list(node.keys, st):
            if isinstance(ks, ExcVal):
                yield s, ks
                continue
            for s2, vs in self.ev_list(node.values, s):
                if isinstance(vs, ExcVal):
                    yield s2, vs
                    continue
                yield from self.B.make_dict(self, s2, list(zip(ks, vs)))

    def ex_Attribute(self, node, st):
        for s, obj in self.ev(node.value, st):
            if isinstance(obj, ExcVal):
                yield s, obj
                continue
            yield from self.getattr(s, obj, node.attr, node)

    def ex_Subscript(self, node, st):
        for s, obj in self.ev(node.value, st):
            if isinstance(obj, ExcVal):
                yield s, obj
                continue
            if isinstance(node.slice, ast.Slice):
                sl = node.slice
                parts = [sl.lower, sl.upper, sl.step]

                def evp(ps, s0):
                    if not ps:
                        yield s0, []
                        return
                    if ps[0] is None:
                        for s1, r in evp(ps[1:], s0):
                            yield s1, [None] + r
                    else:
                        for s1, v in self.ev(ps[0], s0):
                            for s2, r in evp(ps[1:], s1):
                                yield s2, [v] + r
                for s1, (lo, hi, stp) in evp(parts, s):
                    yield from self.B.slice(self, s1, obj, lo, hi, stp, node)
                continue
            for s2, k in self.ev(node.slice, s):
                if isinstance(k, ExcVal):
                    yield s2, k
                    continue
                yield from self.B.getitem(self, s2, obj, k, node)

    def ex_Starred(self, node, st):
        raise Unsupported("starred expression outside call/tuple")

    def ex_Yield(self, node, st):
        hook = self.yield_hooks.get(st.frame.fname)
        if hook is None:
            raise Unsupported("yield without a registered yield hook")
        if node.value is None:
            hook(self, st, None)
            yield st, None
            return
        for s, v in self.ev(node.value, st):
            if isinstance(v, ExcVal):
                yield s, v
            else:
                hook(self, s, v)
                yield s, None

    def ex_Lambda(self, node, st):
        yield st, Closure(node, st.frame, st.frame.fname + ".<lambda>")

    def ex_IfExp(self, node, st):
        for s, c in self.ev(node.test, st):
            if isinstance(c, ExcVal):
                yield s, c
                continue
            for s2, b in self.truth(s, c, f"ifexp{self.line(s, node)}"):
                yield from self.ev(node.body if b else node.orelse, s2)

    def ex_NamedExpr(self, node, st):
        for s, v in self.ev(node.value, st):
            if not isinstance(v, ExcVal):
                s.frame.vars[node.target.id] = v
            yield s, v

    def ex_BoolOp(self, node, st):
        is_and = isinstance(node.op, ast.And)

        def go(values, s):
            for s1, v in self.ev(values[0], s):
                if isinstance(v, ExcVal) or len(values) == 1:
                    yield s1, v
                    continue
                bv = self.as_bool_value(s1, v)
                if isinstance(bv, bool):
                    if bv == is_and:
                        yield from go(values[1:], s1)
                    else:
                        yield s1, v
                    continue
                if isinstance(bv, SBool):
                    # try to merge: evaluate the rest under the guard; if it is a single pure
                    # path yielding a Bool, build And/Or without forking
                    guard = bv.z if is_and else z3.Not(bv.z)
                    if not self.feasible(s1, guard):
                        yield s1, v
                        continue
                    if not self.feasible(s1, z3.Not(guard)):
                        s1.assume(guard)
                        yield from go(values[1:], s1)
                        continue
                    probe = s1.fork().assume(guard)
                    nobl = len(probe.obls)
                    heap_before = dict(probe.heap)
                    res = list(go(values[1:], probe))
                    if (len(res) == 1 and isinstance(self.as_bool_value(res[0][0], res[0][1]), (SBool, bool))
                            and not isinstance(res[0][1], ExcVal)
                            and res[0][0].heap == heap_before and len(res[0][0].obls) == nobl
                            and len(res[0][0].pc) == len(probe.pc)):
                        rb = zbool(self.as_bool_value(res[0][0], res[0][1]))
                        yield s1, SBool(z3.And(bv.z, rb) if is_and else z3.Or(bv.z, rb))
                        continue
                    # genuine fork
                    s_other = s1.fork().assume(z3.Not(guard)).note(f"bo{self.line(s1, node)}:sc")
                    yield s_other, v
                    for sr, vr in res:
                        yield sr.note(f"bo{self.line(s1, node)}:ev"), vr
                    continue
                for s2, b in self.truth(s1, v, f"bo{self.line(s1, node)}"):
                    if b == is_and:
                        yield from go(values[1:], s2)
                    else:
                        yield s2, v
        yield from go(node.values, st)

    def ex_UnaryOp(self, node, st):
        for s, v in self.ev(node.operand, st):
            if isinstance(v, ExcVal):
                yield s, v
                continue
            if isinstance(node.op, ast.Not):
                bv = self.as_bool_value(s, v)
                if isinstance(bv, bool):
                    yield s, not bv
                elif isinstance(bv, SBool):
                    yield s, SBool(z3.Not(bv.z))
                else:
                    for s2, b in self.truth(s, v, f"not{self.line(s, node)}"):
                        yield s2, not b
                continue
            for s2, v2 in self.force(s, v):
                if isinstance(node.op, ast.USub):
                    if isinstance(v2, self.B.X.SExt):
                        yield s2, self.B.X.simplify(self.B.X.neg(v2))
                    elif isinstance(v2, (int, Fraction, SInt, SReal, float)):
                        yield s2, -v2
                    else:
                        yield from self.dunder(s2, v2, "__neg__", [], node)
                elif isinstance(node.op, ast.UAdd):
                    if isinstance(v2, (int, Fraction, SInt, SReal)):
                        yield s2, v2
                    else:
                        yield from self.dunder(s2, v2, "__pos__", [], node)
                elif isinstance(node.op, ast.Invert):
                    yield from self.dunder(s2, v2, "__invert__", [], node)
                else:
                    raise Unsupported("unary op")

    def ex_BinOp(self, node, st):
        for s, a in self.ev(node.left, st):
            if isinstance(a, ExcVal):
                yield s, a
                continue
            for s2, b in self.ev(node.right, s):
                if isinstance(b, ExcVal):
                    yield s2, b
                    continue
                yield from self.binop(s2, node.op, a, b, node)

    def binop(self, st, op, a, b, node):
        for s, fa in self.force(st, a):
            for s2, fb in self.force(s, b):
                yield from self.B.binop(self, s2, op, fa, fb, node)

    def ex_Compare(self, node, st):
        def go(left, ops, comps, s):
            for s1, r in self.ev(comps[0], s):
                if isinstance(r, ExcVal):
                    yield s1, r
                    continue
                for s2, res in self.compare(s1, ops[0], left, r, node):
                    if isinstance(res, ExcVal) or len(ops) == 1:
                        yield s2, res
                        continue
                    # chained: res and (r op2 ...)
                    for s3, b in self.truth(s2, res, f"cmp{self.line(s2, node)}"):
                        if not b:
                            yield s3, False
                        else:
                            yield from go(r, ops[1:], comps[1:], s3)
        for s, l in self.ev(node.left, st):
            if isinstance(l, ExcVal):
                yield s, l
                continue
            yield from go(l, node.ops, node.comparators, s)

    def compare(self, st, op, a, b, node):
        if isinstance(op, (ast.Is, ast.IsNot)):
            neg = isinstance(op, ast.IsNot)
            r = self.B.identical(self, st, a, b)
            if isinstance(r, bool):
                yield st, (not r if neg else r)
            else:
                yield st, SBool(z3.Not(r.z) if neg else r.z)
            return
        for s, fa in self.force(st, a):
            for s2, fb in self.force(s, b):
                yield from self.B.compare(self, s2, op, fa, fb, node)

    def ex_Call(self, node, st):
        for s, f in self.ev(node.func, st):
            if isinstance(f, ExcVal):
                yield s, f
                continue
            for s2, args in self.ev_list(node.args, s):
                if isinstance(args, ExcVal):
                    yield s2, args
                    continue
                kwnodes = node.keywords
                for s3, kwv in self.ev_list([k.value for k in kwnodes], s2):
                    if isinstance(kwv, ExcVal):
                        yield s3, kwv
                        continue
                    kwargs = {}
                    for k, v in zip(kwnodes, kwv):
                        if k.arg is None:      # **mapping: concrete key structure required
                            c = self.deref(s3, v)
                            if isinstance(c, CDict):
                                kwargs.update(c.items)
                            elif isinstance(c, self.B.PendingEmpty):
                                pass
                            elif isinstance(c, dict):
                                kwargs.update(c)
                            elif isinstance(c, SRef) and getattr(c.t, "as_kwargs", False):
                                kwargs["**"] = c       # an opaque keyword mapping, handed as such to a callee under contract
                            else:
                                raise Unsupported("** of a mapping with symbolic keys")
                        else:
                            kwargs[k.arg] = v
                    yield from self.call(s3, f, args, kwargs, node)

    def ex_ListComp(self, node, st):
        for s, r in self.B.comprehension(self, st, node, "list"):
            yield s, r

    def ex_SetComp(self, node, st):
        for s, r in self.B.comprehension(self, st, node, "set"):
            yield s, r

    def ex_GeneratorExp(self, node, st):
        for s, r in self.B.comprehension(self, st, node, "gen"):
            yield s, r

    def ex_DictComp(self, node, st):
        for s, r in self.B.comprehension(self, st, node, "dict"):
            yield s, r

    # ===================================================================== attribute access
    def getattr(self, st, obj, name, node=None, _nonnull=False):
        if isinstance(obj, SUnion):
            for s, o in self.force(st, obj):
                yield from self.getattr(s, o, name, node)
            return
        if obj is None:
            yield st, ExcVal(AttributeError, (name,), self.where(st, node) if node else "")
            return
        if obj is OPAQUE:
            yield st, OPAQUE
            return
        if isinstance(obj, Loc):
            c = st.load(obj)
            if isinstance(c, Rec):
                if name in c.fields:
                    yield st, c.fields[name]
                    return
                if name == "__class__":
                    yield st, c.cls
                    return
                yield from self._class_attr(st, obj, c.cls, name, node)
                return
            yield st, ContainerMethod(obj, name)
            return
        if isinstance(obj, SRef) and getattr(obj.t, "null", None) is not None and not _nonnull:
            for s2, isnull in self.branch(st, obj.z == obj.t.null, f"null.{name}"):
                if isnull:
                    yield s2, ExcVal(AttributeError, (name,), self.where(s2, node) if node else "")
                else:
                    yield from self.getattr(s2, obj, name, node, _nonnull=True)
            return
        if isinstance(obj, SRef) and name in obj.t.mutable:
            yield st, obj.t.mutable[name].wrap(z3.Select(self.heap_field(st, obj.t, name), obj.z))
            return
        if isinstance(obj, SRef):
            t = obj.t
            if name in t.attrs:
                r = t.attrs[name](self, st, obj)
                yield st, r
                return
            if name in t.fields:
                yield st, self.B.field_uf(self, st, obj, name)
                return
            if name in t.methods or name in t.observers:
                yield st, SymMethod(obj, name)
                return
            if t.pycls is not None:
                yield from self._class_attr(st, obj, t.pycls, name, node)
                return
            raise Unsupported(f"attribute {t.name}.{name} not modelled")
        if isinstance(obj, Struct):
            if name in obj.fields:
                yield st, obj.fields[name]
                return
            yield from self._class_attr(st, obj, obj.cls, name, node)
            return
        if isinstance(obj, (SSeq, SMap, SSet, tuple)) and not hasattr(obj, name):
            yield st, ContainerMethod(obj, name)
            return
        if isinstance(obj, (SSeq, SMap, SSet)):
            yield st, ContainerMethod(obj, name)
            return
        if isinstance(obj, SEnum) and name == "name":
            yield st, self.B.uf_value(self, st, f"{obj.t.pyenum.__name__}.name", [obj.z], [obj.t.z3sort()], Str)
            return
        if isinstance(obj, SEnum) and name == "value":
            yield st, SUnion([(obj.z == obj.t.consts[m], m.value) for m in obj.t.members])
            return
        if isinstance(obj, self.B.SG.SegStr):
            yield st, ContainerMethod(obj, name)
            return
        if isinstance(obj, ExcVal):
            raise Unsupported("attribute of exception value")
        if isinstance(obj, SV):
            raise Unsupported(f"attribute {name} of {obj!r}")
        # concrete python object
        if isinstance(obj, (int, Fraction)) and name in ("numerator", "denominator"):
            yield st, getattr(obj, name)
            return
        try:
            r = getattr(obj, name)
        except AttributeError:
            yield st, ExcVal(AttributeError, (name,), self.where(st, node) if node else "")
            return
        if isinstance(obj, (tuple, str, frozenset)) and callable(r):
            yield st, ContainerMethod(obj, name)
            return
        yield st, r

    def _class_attr(self, st, selfv, cls, name, node):
        try:
            a = inspect.getattr_static(cls, name)
        except AttributeError:
            if cls in getattr(self, "partial_classes", ()) or isinstance(selfv, SRef) or \
                    (isinstance(selfv, Loc) and selfv.id not in st.ghost.get("constructed", ())):
                # (an object handed in by the unit's setup carries only the fields the contract names; only an object built by the real
                #  constructor during this run is known field by field)
                # (an opaque reference abstracts every subclass of its python class: an attribute the base class lacks is
                #  outside the model, not an AttributeError of the real code)
                # the contract models only the fields it names: reading another instance field is outside the contract
                # (undecided), never an AttributeError of the real code
                raise Unsupported(f"instance field {getattr(cls, '__name__', cls)}.{name} is not part of the contract's model")
            yield st, ExcVal(AttributeError, (name,), self.where(st, node) if node else "")
            return
        if isinstance(a, property):
            yield from self.call(st, a.fget, [selfv], {}, node)
        elif isinstance(a, types.FunctionType):
            yield st, BoundMethod(selfv, a)
        elif isinstance(a, staticmethod):
            yield st, a.__func__
        elif isinstance(a, classmethod):
            yield st, BoundMethod(cls, a.__func__)
        else:
            yield st, a

    def dunder(self, st, obj, name, args, node):
        """operator dispatch to a user-defined dunder on a modelled object"""
        if isinstance(obj, SRef):
            t = obj.t
            if name in t.methods:
                yield from self.call(st, SymMethod(obj, name), args, {}, node)
                return
            if t.pycls is not None:
                try:
                    a = inspect.getattr_static(t.pycls, name)
                except AttributeError:
                    a = None
                if isinstance(a, types.FunctionType):
                    yield from self.call(st, BoundMethod(obj, a), args, {}, node)
                    return
        if isinstance(obj, Loc) and isinstance(st.load(obj), Rec):
            cls = st.load(obj).cls
            try:
                a = inspect.getattr_static(cls, name)
            except AttributeError:
                a = None
            if isinstance(a, types.FunctionType):
                yield from self.call(st, BoundMethod(obj, a), args, {}, node)
                return
        # reflected operand: CPython tries the right operand's reflected method when the left one does not implement the operation
        refl = {"__lt__": "__gt__", "__le__": "__ge__", "__gt__": "__lt__", "__ge__": "__le__", "__add__": "__radd__", "__sub__": "__rsub__", "__mul__": "__rmul__"}.get(name)
        if refl and len(args) == 1 and isinstance(args[0], SRef) and refl in args[0].t.methods and not isinstance(obj, (SRef, Loc)):
            yield from self.call(st, SymMethod(args[0], refl), [obj], {}, node)
            return
        raise Unsupported(f"operator {name} on {obj!r}")

    # ===================================================================== calls
    def call(self, st, f, args, kwargs, node=None):
        if isinstance(f, SUnion):
            for s, ff in self.force(st, f):
                yield from self.call(s, ff, args, kwargs, node)
            return
        if f is OPAQUE:
            yield st, OPAQUE
            return
        if any(isinstance(a, StarSeq) for a in args):
            import itertools as _it
            if not isinstance(f, SymMethod) and f is not _it.chain and not (isinstance(f, SRef) and "__call__" in f.t.methods):
                raise Unsupported("star-call with symbolic-length sequence to non-contract callee")
        if isinstance(f, BoundMethod):
            fn = f.func
            if fn in self.contracts:
                self.assumed.add(_qn(fn))
                yield from self.contracts[fn](self, st, [f.selfv] + list(args), kwargs)
                return
            yield from self.call(st, fn, [f.selfv] + list(args), kwargs, node)
            return
        if isinstance(f, SymMethod):
            t = f.selfv.t
            if f.name in t.methods:
                self.assumed.add(f"{t.name}.{f.name}")

                def forced_m(i, s0, acc):
                    if i == len(args):
                        yield from t.methods[f.name](self, s0, f.selfv, acc, kwargs)
                        return
                    if isinstance(args[i], SUnion):
                        for s1, a in self.force(s0, args[i]):
                            yield from forced_m(i + 1, s1, acc + [a])
                    else:
                        yield from forced_m(i + 1, s0, acc + [args[i]])
                yield from forced_m(0, st, [])
                return
            argTs, resT = t.observers[f.name]

            def forced(i, s0, acc):
                if i == len(args):
                    yield s0, self.B.observer_uf(self, s0, f.selfv, f.name, argTs, resT, acc)
                    return
                for s1, a in self.force(s0, args[i]):
                    yield from forced(i + 1, s1, acc + [a])
            yield from forced(0, st, [])
            return
        if isinstance(f, ContainerMethod):
            yield from self.B.container_call(self, st, f.target, f.name, list(args), kwargs, node)
            return
        if isinstance(f, Closure):
            yield from self.call_closure(st, f, args, kwargs)
            return
        if isinstance(f, SRef) and "__call__" in f.t.methods:
            yield from f.t.methods["__call__"](self, st, f, list(args), kwargs)
            return
        if f in self.contracts:
            self.assumed.add(_qn(f))
            yield from self.contracts[f](self, st, list(args), kwargs)
            return
        h = self.B.lookup(f)
        if h is not None:
            yield from h(self, st, list(args), kwargs, node)
            return
        if isinstance(f, types.MethodType):
            yield from self.call(st, f.__func__, [f.__self__] + list(args), kwargs, node)
            return
        if isinstance(f, types.FunctionType):
            yield from self.inline(st, f, args, kwargs)
            return
        if inspect.isclass(f):
            yield from self.B.construct(self, st, f, list(args), kwargs, node)
            return
        if isinstance(f, types.BuiltinMethodType) and not isinstance(getattr(f, "__self__", None), types.ModuleType):
            if f.__name__ in _PURE_NATIVE and all(not isinstance(a, (SV, Loc)) for a in list(args) + list(kwargs.values())):
                try:
                    yield st, f(*args, **kwargs)
                except Exception as e:  # noqa
                    yield st, ExcVal(type(e), (), self.where(st, node) if node else "")
                return
        w = self.B.lru_unwrap(f)
        if isinstance(w, types.FunctionType) and type(f).__name__ == "_lru_cache_wrapper":
            yield from self.call(st, w, args, kwargs, node)
            return
        raise Unsupported(f"call of {f!r} at {self.where(st, node) if node else '?'}")

    def bind_params(self, st, argspec, defaults_vals, kwdefaults_vals, args, kwargs, fname):
        a = argspec
        params = [p.arg for p in a.posonlyargs + a.args]
        vars = {}
        args = list(args)
        if len(args) > len(params) and a.vararg is None:
            raise Unsupported(f"too many args for {fname}")
        for i, p in enumerate(params):
            if i < len(args):
                vars[p] = args[i]
            elif p in kwargs:
                vars[p] = kwargs.pop(p)
            else:
                j = i - (len(params) - len(defaults_vals))
                if j < 0:
                    raise Unsupported(f"missing argument {p} for {fname}")
                vars[p] = defaults_vals[j]
        if a.vararg is not None:
            vars[a.vararg.arg] = tuple(args[len(params):])
        for i, p in enumerate(a.kwonlyargs):
            if p.arg in kwargs:
                vars[p.arg] = kwargs.pop(p.arg)
            else:
                d = kwdefaults_vals.get(p.arg, _MISSING)
                if d is _MISSING:
                    raise Unsupported(f"missing kw argument {p.arg}")
                vars[p.arg] = d
        if a.kwarg is not None:
            vars[a.kwarg.arg] = st.alloc(CDict(kwargs), "dict")
        elif kwargs:
            raise Unsupported(f"unexpected kwargs {list(kwargs)} for {fname}")
        return vars

    def inline(self, st, fn, args, kwargs):
        qn = _qn(fn)
        if fn in self.noinline or qn in self.noinline:
            raise Unsupported(f"call to {qn} has no contract and may not be inlined")
        mod = getattr(fn, "__module__", "") or ""
        if not mod.startswith("unified_planning") and not mod.startswith("verif_") and not mod.startswith("contracts.harness"):
            raise Unsupported(f"call to external function {qn} without contract")
        if st.depth >= self.MAX_DEPTH:
            raise Unsupported(f"inline depth exceeded at {qn}")
        node = self.get_ast(fn)
        if inspect.isgeneratorfunction(fn) and qn not in self.yield_hooks:
            raise Unsupported(f"generator function {qn} (give a contract or a yield hook)")
        self.inlined.add(qn)
        defaults = list(fn.__defaults__ or ())
        kwd = dict(fn.__kwdefaults__ or {})
        vars = self.bind_params(st, node.args, defaults, kwd, args, dict(kwargs), qn)
        vars["__fnode__"] = node
        vars["__locals_declared__"] = _local_names(node)
        cells = {}
        if fn.__closure__:
            for nme, cell in zip(fn.__code__.co_freevars, fn.__closure__):
                try:
                    cells[nme] = cell.cell_contents
                except ValueError:
                    pass
        fr = Frame(vars, fn.__globals__, qn, cells)
        st.frames.append(fr)
        st.depth += 1
        for s, out in self.exec_block(node.body, st):
            if out is not NORMAL and out[0] == "cut":
                yield s, CUT
                continue
            s.frames.pop()
            s.depth -= 1
            if out is NORMAL:
                yield s, None
            elif out[0] == "return":
                yield s, out[1]
            elif out[0] == "raise":
                yield s, out[1]
            else:
                raise Unsupported(f"{out} escaped function {qn}")

    def call_closure(self, st, clo, args, kwargs):
        node = clo.node
        if st.depth >= self.MAX_DEPTH:
            raise Unsupported("inline depth exceeded (closure)")
        # defaults evaluated at call time in the defining frame (approximation; only constants used)
        dvals = []
        for d in node.args.defaults:
            if not isinstance(d, ast.Constant):
                raise Unsupported("non-constant default in inner function")
            dvals.append(d.value)
        vars = self.bind_params(st, node.args, dvals, {}, args, dict(kwargs), clo.qualname)
        vars["__fnode__"] = clo.frame.vars.get("__fnode__")
        vars["__locals_declared__"] = _local_names(node) if isinstance(node, ast.FunctionDef) else frozenset()
        # the defining frame may have been forked: find its counterpart in st by position
        parent = clo.frame
        for fr in st.frames:
            if fr.fname == clo.frame.fname:
                parent = fr
        fr = Frame(vars, clo.frame.globals, clo.qualname, {"__parent__": parent})
        st.frames.append(fr)
        st.depth += 1
        if isinstance(node, ast.Lambda):
            for s, v in self.ev(node.body, st):
                s.frames.pop()
                s.depth -= 1
                yield s, v
            return
        for s, out in self.exec_block(node.body, st):
            if out is not NORMAL and out[0] == "cut":
                yield s, CUT
                continue
            s.frames.pop()
            s.depth -= 1
            if out is NORMAL:
                yield s, None
            elif out[0] in ("return", "raise"):
                yield s, out[1]
            else:
                raise Unsupported(f"{out} escaped closure")

    # ===================================================================== top level
    def run(self, fn, st, args, kwargs=None):
        """run real function `fn` from state `st`; yields (st, ('return', v) | ('raise', ExcVal))"""
        base = Frame({}, {}, "<harness>")
        st.frames.append(base)
        for s, v in self.call(st, fn, list(args), dict(kwargs or {})):
            if v is CUT:
                yield s, ("cut",)
            elif isinstance(v, ExcVal):
                yield s, ("raise", v)
            else:
                yield s, ("return", v)


_PURE_NATIVE = {"get", "keys", "values", "items", "startswith", "endswith", "lower", "upper", "split",
                "join", "format", "strip", "index", "count", "copy", "union", "intersection", "issubset",
                "issuperset", "difference", "isdisjoint", "replace", "isdigit", "__contains__", "find",
                "lstrip", "rstrip", "isalpha", "isalnum", "title", "capitalize"}


class Opaque:
    """value of a local the contract declares irrelevant (every operation on it yields OPAQUE again)"""

    def __repr__(self):
        return "OPAQUE"


OPAQUE = Opaque()


class Poison:
    def __repr__(self):
        return "POISON"


POISON = Poison()


class _Cut:
    def __repr__(self):
        return "CUT"


CUT = _Cut()
_MISSING = object()


class StarSeq:
    """marker: a symbolic-length sequence spliced into an argument list"""
    __slots__ = ("seq",)

    def __init__(self, seq):
        self.seq = seq


_qcache = {}


def _has_quantifier(e):
    i = e.get_id()
    r = _qcache.get(i)
    if r is not None and r[0].eq(e):       # the cached node is kept alive, so its id cannot have been reused
        return r[1]
    seen, stack, found = set(), [e], False
    while stack:
        x = stack.pop()
        xi = x.get_id()
        if xi in seen:
            continue
        seen.add(xi)
        if z3.is_quantifier(x) and not x.is_lambda():
            found = True
            break
        if z3.is_quantifier(x):
            stack.append(x.body())
        else:
            stack.extend(x.children())
    if len(_qcache) > 200000:
        _qcache.clear()
    _qcache[i] = (e, found)
    return found


def _same_plain(a, b):
    """two concrete immutable python values that are equal (re-assigning the same constant is not a write worth flagging), or a
    value narrowed to one of the alternatives of an optional (a refinement made by a None test, not a write)"""
    if isinstance(a, SUnion):
        alts = [x for _, x in a.alts]
        if b is None and any(x is None for x in alts):
            return True
        if any(b is x for x in alts):
            return True
        if isinstance(b, SUnion) and all(any(y is x for x in alts) for _, y in b.alts):
            return True
    if isinstance(a, (SV, Loc)) or isinstance(b, (SV, Loc)):
        return False
    try:
        return type(a) is type(b) and a == b and isinstance(a, (int, str, bool, type(None), Fraction, tuple, enum.Enum))
    except Exception:  # noqa
        return False


def _mergeable_body(stmts):
    """cheap syntactic filter: no loops / try / with inside a branch we try to merge"""
    for st in stmts:
        for n in ast.walk(st):
            if isinstance(n, (ast.For, ast.While, ast.Try, ast.With, ast.FunctionDef, ast.Lambda)):
                return False
    return True


def _qn(fn):
    return f"{getattr(fn, '__module__', '?')}.{getattr(fn, '__qualname__', repr(fn))}"


def _loops_in_order(fnode):
    out = []

    def visit(n):
        for c in ast.iter_child_nodes(n):
            if isinstance(c, (ast.For, ast.While)):
                out.append(c)
            if isinstance(c, (ast.FunctionDef, ast.Lambda)) and c is not fnode:
                continue
            visit(c)
    visit(fnode)
    out.sort(key=lambda n: (n.lineno, n.col_offset))
    return out


def _as_load(t):
    t2 = ast.parse(ast.unparse(t), mode="eval").body
    ast.copy_location(t2, t)
    for n in ast.walk(t2):
        if not hasattr(n, "lineno"):
            n.lineno = t.lineno
    return t2


def _assigned_names(loop):
    names = []

    def add(n):
        if n not in names:
            names.append(n)

    def tgt(t):
        if isinstance(t, ast.Name):
            add(t.id)
        elif isinstance(t, (ast.Tuple, ast.List)):
            for e in t.elts:
                tgt(e)
        elif isinstance(t, ast.Subscript):
            if isinstance(t.value, ast.Name):
                add(t.value.id)
            elif isinstance(t.value, ast.Attribute) and isinstance(t.value.value, ast.Name) and t.value.value.id == "self":
                add("self." + t.value.attr)
        elif isinstance(t, ast.Attribute):
            if isinstance(t.value, ast.Name) and t.value.id == "self":
                add("self." + t.attr)
        elif isinstance(t, ast.Starred):
            tgt(t.value)
    MUT = {"append", "add", "update", "pop", "remove", "extend", "insert", "clear", "setdefault",
           "popitem", "discard", "sort", "reverse", "appendleft", "popleft"}
    for n in ast.walk(loop):
        if isinstance(n, ast.Assign):
            for t in n.targets:
                tgt(t)
        elif isinstance(n, (ast.AugAssign, ast.AnnAssign)):
            tgt(n.target)
        elif isinstance(n, ast.For):
            tgt(n.target)
        elif isinstance(n, ast.NamedExpr):
            tgt(n.target)
        elif isinstance(n, ast.Delete):
            for t in n.targets:
                tgt(t)
        elif isinstance(n, ast.Call) and isinstance(n.func, ast.Attribute) and n.func.attr in MUT:
            v = n.func.value
            if isinstance(v, ast.Name):
                add(v.id)
            elif isinstance(v, ast.Attribute) and isinstance(v.value, ast.Name) and v.value.id == "self":
                add("self." + v.attr)
        elif isinstance(n, ast.ExceptHandler) and n.name:
            add(n.name)
    return names


def _local_names(fnode):
    names = set()
    for n in ast.walk(fnode):
        if isinstance(n, ast.Name) and isinstance(n.ctx, ast.Store):
            names.add(n.id)
        elif isinstance(n, ast.ExceptHandler) and n.name:
            names.add(n.name)
    for a in fnode.args.posonlyargs + fnode.args.args + fnode.args.kwonlyargs:
        names.discard(a.arg)
    return frozenset(names)

"""Segment strings: text assembled from literal pieces and printed numbers.

A SegStr is a concatenation of segments, each either a python `str` literal or an *atom*: the decimal text of a symbolic integer
(`str(i)`, character class  -?[0-9]+ ) or of a symbolic rational (`str(Fraction)`, class  -?[0-9]+(/[0-9]+)? ).  Formatting code builds
such strings with f-strings / join / +; parsing code takes them apart with `in`, `==`, split, strip, startswith, int(), Fraction().
Every operation below is exact whenever its answer does not depend on the digits of an atom (delimiters and keywords of the verified
code -- "[", ",", "]", " ", "inf", "up:" -- contain no character an atom can contain other than "-"); otherwise it raises Unsupported
(the obligation is then undecided, never wrongly decided).  Library facts used (trusted, validated by sampling in the self-test):
int(str(i)) == i, Fraction(str(q)) == q, int() / Fraction() ignore surrounding whitespace, an atom is non-empty, starts with "-" or a
digit, ends with a digit and contains only characters of "-0123456789/".
"""
from __future__ import annotations

import z3

from .values import SV, SInt, SReal, SBool, Unsupported

ATOM_CHARS = set("-0123456789/")
ATOM_FIRST = set("-0123456789")
ATOM_LAST = set("0123456789")


class SegStr(SV):
    __slots__ = ("segs",)

    def __init__(self, segs):
        out = []
        for s in segs:
            if isinstance(s, SegStr):
                for x in s.segs:
                    _push(out, x)
            else:
                _push(out, s)
        self.segs = out

    def __repr__(self):
        return "SegStr(" + " ++ ".join(repr(s) if isinstance(s, str) else f"<{s[0]} {s[1]}>" for s in self.segs) + ")"

    def concrete(self):
        """the python string if there is no atom, else None"""
        if all(isinstance(s, str) for s in self.segs):
            return "".join(self.segs)
        return None


def _push(out, x):
    if isinstance(x, str):
        if not x:
            return
        if out and isinstance(out[-1], str):
            out[-1] = out[-1] + x
        else:
            out.append(x)
    else:
        out.append(x)


def atom_of(v):
    if isinstance(v, SInt):
        return SegStr([("int", v.z)])
    if isinstance(v, SReal):
        return SegStr([("frac", v.z)])
    raise Unsupported(f"str() of {v!r}")


def lift(x):
    if isinstance(x, SegStr):
        return x
    if isinstance(x, str):
        return SegStr([x])
    return None


def concat(parts):
    ps = []
    for p in parts:
        q = lift(p)
        if q is None:
            raise Unsupported(f"string concatenation with {p!r}")
        ps.append(q)
    r = SegStr(ps)
    c = r.concrete()
    return c if c is not None else r


def _skeleton(s: SegStr):
    """list of items: literal chars, or ATOM markers"""
    out = []
    for seg in s.segs:
        if isinstance(seg, str):
            out.extend(seg)
        else:
            out.append(seg)
    return out


def equals_literal(s: SegStr, lit: str):
    """python bool: s == lit, when decidable without knowing the digits"""
    c = s.concrete()
    if c is not None:
        return c == lit
    # compare from the left up to the first atom, from the right up to the last atom
    sk = _skeleton(s)
    i = 0
    while i < len(sk) and isinstance(sk[i], str):
        if i >= len(lit) or lit[i] != sk[i]:
            return False
        i += 1
    j = 0
    while j < len(sk) and isinstance(sk[len(sk) - 1 - j], str):
        if j >= len(lit) - i or lit[len(lit) - 1 - j] != sk[len(sk) - 1 - j]:
            return False
        j += 1
    middle = lit[i:len(lit) - j]
    # the middle of lit must be produced by atoms (and literals between them): if it holds a character no atom can print and the
    # skeleton middle has no literal with it, they differ
    mid_sk = sk[i:len(sk) - j]
    lit_chars_between = {c_ for c_ in mid_sk if isinstance(c_, str)}
    if any((ch not in ATOM_CHARS) and (ch not in lit_chars_between) for ch in middle):
        return False
    if not middle:
        return False        # atoms are non-empty
    raise Unsupported(f"equality of {s!r} with {lit!r} depends on the digits of a number")


def contains_literal(s: SegStr, lit: str):
    """python bool: lit in s, when decidable"""
    c = s.concrete()
    if c is not None:
        return lit in c
    if not lit:
        return True
    for seg in s.segs:
        if isinstance(seg, str) and lit in seg:
            return True
    # could an occurrence overlap an atom?  slide lit over the skeleton (an atom = one or more unknown chars of the atom class)
    sk = _skeleton(s)
    n = len(sk)
    for start in range(n):
        if _may_match(sk, start, lit):
            raise Unsupported(f"`{lit!r} in {s!r}` may depend on the digits of a number")
    return False


def _may_match(sk, start, lit):
    """can lit match the text starting inside skeleton item `start` with at least one character falling in an atom?"""
    # dynamic check over positions: state = (index in sk, index in lit, touched_atom)
    seen = set()
    stack = [(start, 0, False, "first")]
    while stack:
        i, k, touched, where = stack.pop()
        if (i, k, touched, where) in seen:
            continue
        seen.add((i, k, touched, where))
        if k == len(lit):
            if touched:
                return True
            continue
        if i >= len(sk):
            continue
        item = sk[i]
        if isinstance(item, str):
            if item == lit[k]:
                stack.append((i + 1, k + 1, touched, "first"))
            continue
        # an atom: consume one or more of its characters; position classes: first / middle / last
        ch = lit[k]
        if ch not in ATOM_CHARS:
            continue
        # the matched window may start in the middle of the atom only for the first item
        # consume this char as some character of the atom and either stay in the atom or leave it
        if where == "first" and i == start and k == 0:
            # may start anywhere inside the atom: any atom char allowed, '-' only at the very beginning
            stack.append((i, k + 1, True, "inside"))
            if ch in ATOM_LAST:
                stack.append((i + 1, k + 1, True, "first"))
        else:
            if where == "first" and ch not in ATOM_FIRST:
                continue
            if where == "inside" and ch == "-":
                continue
            stack.append((i, k + 1, True, "inside"))
            if ch in ATOM_LAST:
                stack.append((i + 1, k + 1, True, "first"))
    return False


def split(s: SegStr, delim: str):
    """list of str / SegStr"""
    if not delim or any(ch in ATOM_CHARS for ch in delim):
        raise Unsupported(f"split on {delim!r}: the delimiter could occur inside a number")
    parts, cur = [], []
    for seg in s.segs:
        if isinstance(seg, str):
            pieces = seg.split(delim)
            cur.append(pieces[0])
            for p in pieces[1:]:
                parts.append(concat(cur))
                cur = [p]
        else:
            cur.append(SegStr([seg]))
    parts.append(concat(cur))
    return parts


def strip(s: SegStr):
    segs = list(s.segs)
    if segs and isinstance(segs[0], str):
        segs[0] = segs[0].lstrip()
    if segs and isinstance(segs[-1], str):
        segs[-1] = segs[-1].rstrip()
    return concat([SegStr([x]) if not isinstance(x, str) else x for x in segs])


def startswith(s: SegStr, lit: str):
    c = s.concrete()
    if c is not None:
        return c.startswith(lit)
    first = s.segs[0] if s.segs else ""
    if isinstance(first, str):
        if len(first) >= len(lit):
            return first.startswith(lit)
        if not lit.startswith(first):
            return False
        rest = lit[len(first):]
        if rest[0] not in ATOM_FIRST:
            return False
        raise Unsupported("startswith depends on the digits of a number")
    if lit[0] not in ATOM_FIRST:
        return False
    raise Unsupported("startswith depends on the digits of a number")


def single_atom(s: SegStr):
    """the atom if the string, ignoring surrounding whitespace, is exactly one atom; else None"""
    t = strip(s)
    if isinstance(t, SegStr) and len(t.segs) == 1 and not isinstance(t.segs[0], str):
        return t.segs[0]
    return None


def to_int(s: SegStr):
    """('ok', SInt) | ('raise', ValueError)"""
    c = s.concrete()
    if c is not None:
        try:
            return "ok", int(c)
        except ValueError:
            return "raise", ValueError
    a = single_atom(s)
    if a is not None and a[0] == "int":
        return "ok", SInt(a[1])
    raise Unsupported(f"int({s!r})")


def to_fraction(s: SegStr):
    from fractions import Fraction
    c = s.concrete()
    if c is not None:
        try:
            return "ok", Fraction(c)
        except (ValueError, ZeroDivisionError) as e:
            return "raise", type(e)
    a = single_atom(s)
    if a is not None:
        return "ok", SReal(a[1] if a[0] == "frac" else z3.ToReal(a[1]))
    raise Unsupported(f"Fraction({s!r})")

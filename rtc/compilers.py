"""Shared bounded harness for the problem-to-problem compilers (C06, C07, C08, C09)."""
import itertools
import random
import warnings
from rtc import seqcheck as SC
from spec import seqsem, pddl3
from unified_planning.engines import CompilationKind

CK = CompilationKind
COMPILERS = {
    CK.GROUNDING: ("unified_planning.engines.compilers.grounder", "Grounder"),
    CK.CONDITIONAL_EFFECTS_REMOVING: ("unified_planning.engines.compilers.conditional_effects_remover", "ConditionalEffectsRemover"),
    CK.DISJUNCTIVE_CONDITIONS_REMOVING: ("unified_planning.engines.compilers.disjunctive_conditions_remover", "DisjunctiveConditionsRemover"),
    CK.NEGATIVE_CONDITIONS_REMOVING: ("unified_planning.engines.compilers.negative_conditions_remover", "NegativeConditionsRemover"),
    CK.QUANTIFIERS_REMOVING: ("unified_planning.engines.compilers.quantifiers_remover", "QuantifiersRemover"),
    CK.USERTYPE_FLUENTS_REMOVING: ("unified_planning.engines.compilers.usertype_fluents_remover", "UsertypeFluentsRemover"),
    CK.BOUNDED_TYPES_REMOVING: ("unified_planning.engines.compilers.bounded_types_remover", "BoundedTypesRemover"),
    CK.STATE_INVARIANTS_REMOVING: ("unified_planning.engines.compilers.state_invariants_remover", "StateInvariantsRemover"),
    CK.TRAJECTORY_CONSTRAINTS_REMOVING: ("unified_planning.engines.compilers.trajectory_constraints_remover", "TrajectoryConstraintsRemover"),
    CK.UNDEFINED_INITIAL_NUMERIC_REMOVING: ("unified_planning.engines.compilers.undefined_initial_numeric_remover", "UndefinedInitialNumericRemover"),
}
PIPELINES = [(CK.QUANTIFIERS_REMOVING, CK.CONDITIONAL_EFFECTS_REMOVING), (CK.CONDITIONAL_EFFECTS_REMOVING, CK.GROUNDING),
             (CK.USERTYPE_FLUENTS_REMOVING, CK.QUANTIFIERS_REMOVING)]

# per-compiler generator features (so that the construct the compiler removes is actually present)
FEATURES = {
    CK.GROUNDING: {}, CK.CONDITIONAL_EFFECTS_REMOVING: {"conditional": 0.7, "forall_effects": 0.0},
    CK.DISJUNCTIVE_CONDITIONS_REMOVING: {"forall_effects": 0.0}, CK.NEGATIVE_CONDITIONS_REMOVING: {"quantifiers": 0.0, "forall_effects": 0.0},
    CK.QUANTIFIERS_REMOVING: {"forall_effects": 0.5}, CK.USERTYPE_FLUENTS_REMOVING: {"objfluent": 1.0},
    CK.BOUNDED_TYPES_REMOVING: {"numeric": 1.0, "bounded": 1.0}, CK.STATE_INVARIANTS_REMOVING: {"invariants": 1.0},
    CK.TRAJECTORY_CONSTRAINTS_REMOVING: {"trajectory": 1.0, "quantifiers": 0.3}, CK.UNDEFINED_INITIAL_NUMERIC_REMOVING: {"numeric": 1.0, "undefined": 0.6},
}


def get_compiler(ck):
    import importlib
    mod, cls = COMPILERS[ck]
    return getattr(importlib.import_module(mod), cls)


def compile_with(pr, cks):
    """returns (list of results, final problem) applying the compilers in order; raises on failure"""
    results = []
    cur = pr
    for ck in cks:
        C = get_compiler(ck)
        if not C.supports(cur.kind):
            return None, None
        r = C().compile(cur, ck)
        results.append(r)
        cur = r.problem
    return results, cur


def map_back(results, plan):
    from unified_planning.plans import SequentialPlan
    p = plan
    for r in reversed(results):
        if r.plan_back_conversion is not None:
            p = r.plan_back_conversion(p)
        else:
            p = p.replace_action_instances(r.map_back_action_instance)
    return p


def valid_plans(pr, maxlen, cap, rng, need_goal=True):
    """plans (tuples of (action, params)) valid under the reference semantics, incl. trajectory constraints"""
    gas = seqsem.ground_actions(pr)
    init = seqsem.initial_state(pr)
    out = []
    nodes = [0]

    def dfs(prefix, trace):
        if len(out) >= cap or nodes[0] > 1200:
            return
        nodes[0] += 1
        try:
            if (not need_goal or seqsem.is_goal(pr, trace[-1])) and pddl3.holds_all(pr, trace):
                out.append(tuple(prefix))
        except (seqsem.Ambiguous, pddl3.Ambiguous):
            pass
        if len(prefix) == maxlen:
            return
        order = list(gas)
        rng.shuffle(order)
        for (a, ps) in order:
            try:
                s2 = seqsem.successor(pr, trace[-1], a, ps)
            except seqsem.Ambiguous:
                continue
            if s2 is not None:
                dfs(prefix + [(a, ps)], trace + [s2])
    dfs([], [init])
    return out


def is_valid(pr, plan):
    """reference validity of a plan (tuple of (action, params)); raises Ambiguous"""
    trace = [seqsem.initial_state(pr)]
    for (a, ps) in plan:
        nxt = seqsem.successor(pr, trace[-1], a, ps)
        if nxt is None:
            return False
        trace.append(nxt)
    return seqsem.is_goal(pr, trace[-1]) and pddl3.holds_all(pr, trace)


def to_plan(pr_plan):
    from unified_planning.plans import SequentialPlan, ActionInstance
    return SequentialPlan([ActionInstance(a, tuple(ps)) for a, ps in pr_plan])


def from_plan(sp):
    return tuple((ai.action, tuple(p.object() if p.is_object_exp() else p.constant_value() for p in ai.actual_parameters)) for ai in sp.actions)


def pname(plan):
    return [f"{a.name}({','.join(getattr(o, 'name', str(o)) for o in ps)})" for a, ps in plan]


def cases(seed, nprob, ck_list=None):
    """yields (label, cks, seed_i, problem) over single compilers and pipelines"""
    from rtc.crafted import crafted_cases
    for i, (label, cks, pr) in enumerate(crafted_cases()):
        if ck_list and cks[0] not in ck_list:
            continue
        yield label, cks, 9000000 + i, pr
    todo = [(ck,) for ck in COMPILERS] + PIPELINES
    for cks in todo:
        if ck_list and cks[0] not in ck_list:
            continue
        feats = dict(FEATURES.get(cks[0], {}))
        feats.setdefault("max_actions", 2)
        # "sane" profile: no constant or trivially true/false atoms, no effect pairs crafted to collide; the degenerate
        # shapes are exercised by the simulator/validator checks (C01-C04), here they only multiply corner-case findings
        feats.setdefault("sane", True)
        feats.setdefault("crafted_pairs", 0.0)
        label = "+".join(c.name for c in cks)
        for s, pr in SC.problems(seed + 101 + 17 * (__import__("zlib").crc32(label.encode()) % 97), nprob, features=feats):
            yield label, cks, s, pr

"""Known-finding awareness for the bounded loops: a listed finding must not use up the budget of reported failures,
otherwise a new violation behind it would go unexplored.  (The file is only read, never written.)"""
import json
import os
import re

_K = None


def _load():
    global _K
    if _K is None:
        p = os.path.join(os.path.dirname(os.path.dirname(os.path.abspath(__file__))), "known_findings.json")
        try:
            _K = json.load(open(p)).get("open", [])
        except Exception:  # noqa
            _K = []
    return _K


def is_known(prop, what):
    w = what if what.startswith("bounded::") else "bounded::" + what
    return any(k["property"] == prop and re.search(k["match"], w) for k in _load())


def stop(prop, failures, limit, hard=80):
    """True when `limit` failures NOT covered by a known finding have been collected (or `hard` in total)"""
    n = sum(1 for f in failures if not is_known(prop, f["what"]))
    return n >= limit or len(failures) >= hard

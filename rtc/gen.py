"""Deterministic (seeded) generator of small planning problems for the bounded layer.
Grammar: 1-2 user types (optional hierarchy), 2-3 objects, Boolean / bounded-int / real / object-valued
fluents with 0-1 parameters, 1-3 instantaneous actions with 0-2 parameters, preconditions and goals over
{literal, not, and, or, implies, iff, =, <=, <, exists, forall}, effects {assign, increase, decrease} x
{unconditional, conditional} x {plain, forall}, optional state invariants, defaults / explicit /
undefined initial values."""
import random
from fractions import Fraction
import unified_planning as up
from unified_planning.shortcuts import (Problem, Fluent, InstantaneousAction, UserType, Object, BoolType, IntType,
                                        RealType, Variable, Exists, Forall, And, Or, Not, Implies, Iff, Equals, LE, LT,
                                        Plus, Minus, Times, Int, Real, TRUE, FALSE)


class Gen:
    def __init__(self, seed, features=None):
        self.rng = random.Random(seed)
        self.features = features or {}

    def p(self, x):
        return self.rng.random() < x

    def problem(self, name="g"):
        rng = self.rng
        F = self.features
        T = UserType("T")
        S = UserType("S", T) if self.p(F.get("hierarchy", 0.3)) else None
        pr = Problem(name)
        objs = [Object(f"o{i}", T) for i in range(rng.randint(1, 2))]
        if S is not None:
            objs.append(Object("s0", S))
        elif len(objs) < 2 or self.p(0.4):
            objs.append(Object(f"o{len(objs)}", T))
        pr.add_objects(objs)
        self.T, self.S, self.objs, self.pr = T, S, objs, pr
        fl = {}
        # Boolean fluents
        fl["p"] = Fluent("p", BoolType(), x=T)
        fl["q"] = Fluent("q", BoolType())
        if self.p(0.4):
            fl["w"] = Fluent("w", BoolType(), x=(S or T))
        # numeric
        if self.p(F.get("numeric", 0.7)):
            fl["n"] = Fluent("n", IntType(0, 3) if self.p(F.get("bounded", 0.7)) else IntType())
            if self.p(0.5):
                fl["m"] = Fluent("m", IntType(0, 2) if self.p(0.5) else IntType(), x=T)
            if self.p(F.get("real", 0.3)):
                fl["u"] = Fluent("u", RealType(Fraction(0), Fraction(5, 2)) if self.p(0.5) else RealType())
        if self.p(F.get("objfluent", 0.4)):
            fl["loc"] = Fluent("loc", T, x=T)
        self.fl = fl
        for name_, f in fl.items():
            mode = rng.random()
            undefined_ok = self.p(F.get("undefined", 0.15))
            if f.type.is_bool_type():
                if mode < 0.6:
                    pr.add_fluent(f, default_initial_value=rng.choice([True, False]))
                elif undefined_ok:
                    pr.add_fluent(f)
                else:
                    pr.add_fluent(f, default_initial_value=False)
            elif f.type.is_int_type() or f.type.is_real_type():
                lo = f.type.lower_bound if f.type.lower_bound is not None else 0
                v = lo + rng.randint(0, 2)
                if f.type.upper_bound is not None:
                    v = min(v, f.type.upper_bound)
                if f.type.is_real_type():
                    v = Fraction(v) + (Fraction(1, 2) if self.p(0.3) and (f.type.upper_bound is None or v + Fraction(1, 2) <= f.type.upper_bound) else 0)
                if undefined_ok and mode > 0.8:
                    pr.add_fluent(f)
                else:
                    pr.add_fluent(f, default_initial_value=v)
            else:
                if undefined_ok and mode > 0.7:
                    pr.add_fluent(f)
                else:
                    pr.add_fluent(f, default_initial_value=rng.choice([o for o in objs if self._compatible(f.type, o.type)]))
            # a few explicit initial values
            if f.arity == 1 and self.p(0.5):
                o = rng.choice([o for o in objs if self._compatible(f.signature[0].type, o.type)])
                try:
                    pr.set_initial_value(f(o), self.const_for(f.type))
                except Exception:  # noqa
                    pass
        # actions
        for ai in range(rng.randint(1, F.get("max_actions", 3))):
            nparams = rng.randint(0, 2)
            a = InstantaneousAction(f"a{ai}", **{f"x{j}": (S if (S is not None and self.p(0.2)) else T) for j in range(nparams)})
            scope = [a.parameter(f"x{j}") for j in range(nparams)]
            for _ in range(rng.randint(0, 2)):
                try:
                    a.add_precondition(self.bexp(scope, 2))
                except Exception:  # noqa
                    pass
            for _ in range(rng.randint(1, 3)):
                self.add_effect(a, scope)
            if self.p(F.get("crafted_pairs", 0.3)):
                self.add_crafted_pair(a, scope)
            if a.effects:
                pr.add_action(a)
        if not pr.actions:
            a = InstantaneousAction("a_fallback")
            a.add_effect(fl["q"](), TRUE())
            pr.add_action(a)
        if self.p(F.get("invariants", 0.3)):
            for _ in range(rng.randint(1, 2)):
                try:
                    pr.add_state_invariant(self.bexp([], 2, allow_quant=True))
                except Exception:  # noqa
                    pass
        for _ in range(rng.randint(1, 2)):
            try:
                pr.add_goal(self.bexp([], 2, allow_quant=True))
            except Exception:  # noqa
                pass
        if self.p(F.get("trajectory", 0.0)):
            from unified_planning.shortcuts import Always, Sometime, AtMostOnce, SometimeBefore, SometimeAfter
            for _ in range(rng.randint(1, 2)):
                k = rng.random()
                a, b = self.bexp([], 1, allow_quant=False), self.bexp([], 1, allow_quant=False)
                if F.get("sane"):
                    o = rng.choice(self.objs)
                    a = rng.choice([self.fl["q"](), self.fl["p"](o), Not(self.fl["p"](o))])
                    b = rng.choice([self.fl["q"](), Not(self.fl["q"]()), self.fl["p"](rng.choice(self.objs))])
                try:
                    if k < 0.25:
                        tc = Always(a)
                    elif k < 0.45:
                        tc = Sometime(a)
                    elif k < 0.6:
                        tc = AtMostOnce(a)
                    elif k < 0.8:
                        tc = SometimeBefore(a, b)
                    else:
                        tc = SometimeAfter(a, b)
                    if self.p(0.2):
                        v = Variable("tv", self.T)
                        tc2 = {0: Always, 1: Sometime}[rng.randint(0, 1)](self.fl["p"](v))
                        tc = Forall(tc2, v)
                    if F.get("trajectory_conj") and self.p(F["trajectory_conj"]):
                        # ONE constraint expression that is a conjunction (what `(:constraints (and ...))` reads as), mixing an Always with
                        # the constraint just built, in either order (opt-in: consumes no randomness unless asked for)
                        inv = Always(rng.choice([self.fl["q"](), Not(self.fl["q"]()), self.fl["p"](rng.choice(self.objs))]))
                        tc = And(inv, tc) if self.p(0.5) else And(tc, inv)
                    pr.add_trajectory_constraint(tc)
                except Exception:  # noqa
                    pass
        return pr

    def _compatible(self, t_formal, t_actual):
        return t_formal.is_compatible(t_actual)

    def const_for(self, t):
        rng = self.rng
        if t.is_bool_type():
            return rng.choice([True, False])
        if t.is_int_type():
            lo = t.lower_bound if t.lower_bound is not None else 0
            hi = t.upper_bound if t.upper_bound is not None else lo + 3
            return rng.randint(lo, hi)
        if t.is_real_type():
            lo = t.lower_bound if t.lower_bound is not None else Fraction(0)
            return lo + Fraction(rng.randint(0, 4), 2)
        return rng.choice([o for o in self.objs if self._compatible(t, o.type)])

    # ---- expressions
    def oexp(self, scope, t=None, depth=2):
        """object-valued expression of (a subtype of) type t (object fluents nested at most `depth` deep)"""
        t = t or self.T
        rng = self.rng
        cands = [o for o in self.objs if self._compatible(t, o.type)]
        ps = [s for s in scope if s.type.is_user_type() and self._compatible(t, s.type)]
        r = rng.random()
        if ps and r < 0.55:
            return rng.choice(ps)
        if "loc" in self.fl and r < 0.7 and t == self.T and depth > 0:
            return self.fl["loc"](self.oexp(scope, depth=depth - 1))
        return rng.choice(cands)

    def nexp(self, scope, depth, real=False):
        rng = self.rng
        nums = [k for k in ("n", "m", "u") if k in self.fl and (real or k != "u")]
        r = rng.random()
        if depth <= 0 or r < 0.35 or not nums:
            if nums and r < 0.25:
                return self.nfluent(scope, rng.choice(nums))
            return Int(rng.randint(0, 3)) if not (real and self.p(0.4)) else Real(Fraction(rng.randint(0, 5), 2))
        k = rng.random()
        if k < 0.4:
            return self.nfluent(scope, rng.choice(nums))
        if k < 0.65:
            return Plus(self.nexp(scope, depth - 1, real), self.nexp(scope, depth - 1, real))
        if k < 0.85:
            return Minus(self.nexp(scope, depth - 1, real), self.nexp(scope, depth - 1, real))
        return Times(Int(rng.randint(0, 2)), self.nexp(scope, depth - 1, real))

    def nfluent(self, scope, k):
        f = self.fl[k]
        return f(self.oexp(scope)) if f.arity == 1 else f()

    def batom(self, scope):
        rng = self.rng
        r = rng.random()
        if r < 0.35:
            return self.fl["p"](self.oexp(scope))
        if r < 0.5:
            return self.fl["q"]()
        if r < 0.58 and "w" in self.fl:
            return self.fl["w"](self.oexp(scope, self.fl["w"].signature[0].type))
        if r < 0.8 and any(k in self.fl for k in ("n", "m", "u")):
            real = "u" in self.fl and self.p(0.3)
            op = rng.choice([LE, LT, Equals])
            a, b = self.nexp(scope, 1, real), self.nexp(scope, 1, real)
            if self.features.get("sane") and (a == b or (a.is_constant() and b.is_constant())):
                return self.fl["q"]()
            return op(a, b)
        if r < 0.92 or self.features.get("sane"):
            a, b = self.oexp(scope), self.oexp(scope)
            if self.features.get("sane") and a == b:
                return self.fl["p"](a)
            return Equals(a, b)
        return rng.choice([TRUE(), FALSE()])

    def bexp(self, scope, depth, allow_quant=True):
        rng = self.rng
        r = rng.random()
        if depth <= 0 or r < 0.3:
            return self.batom(scope)
        if r < 0.42:
            return Not(self.bexp(scope, depth - 1, allow_quant))
        if r < 0.58:
            return And(self.bexp(scope, depth - 1, allow_quant), self.bexp(scope, depth - 1, allow_quant))
        if r < 0.72:
            return Or(self.bexp(scope, depth - 1, allow_quant), self.bexp(scope, depth - 1, allow_quant))
        if r < 0.78:
            return Implies(self.bexp(scope, depth - 1, allow_quant), self.bexp(scope, depth - 1, allow_quant))
        if r < 0.83:
            return Iff(self.bexp(scope, depth - 1, allow_quant), self.bexp(scope, depth - 1, allow_quant))
        if allow_quant and self.p(self.features.get("quantifiers", 1.0)):
            v = Variable(f"v{depth}_{len(scope)}", self.S if (self.S is not None and self.p(0.2)) else self.T)
            q = Exists if self.p(0.5) else Forall
            return q(self.bexp(scope + [v], depth - 1, False), v)
        return self.batom(scope)

    def add_crafted_pair(self, a, scope):
        """two effects that may hit the same ground fluent only in some states / for some parameter values:
        conditional assignment + conditional increase, or targets that alias when two parameters coincide"""
        rng = self.rng
        fl = self.fl
        try:
            tparams = [s for s in scope if s.type.is_user_type() and s.type == self.T]
            if "m" in fl and len(tparams) >= 2 and self.p(0.5):
                m = fl["m"]
                first, second = rng.sample(["assign", "inc", "assign2"], 2)
                for kind, par in ((first, tparams[0]), (second, tparams[1])):
                    if kind == "inc":
                        a.add_increase_effect(m(par), 1)
                    else:
                        a.add_effect(m(par), Int(0 if kind == "assign" else 1))
            elif "n" in fl:
                n = fl["n"]
                c1, c2 = self.bexp(scope, 1, allow_quant=False), self.bexp(scope, 1, allow_quant=False)
                if self.p(0.5):
                    a.add_effect(n(), Int(rng.randint(0, 2)), c1)
                    a.add_increase_effect(n(), 1, c2)
                else:
                    a.add_increase_effect(n(), 1, c2)
                    a.add_effect(n(), Int(rng.randint(0, 2)), c1)
        except Exception:  # noqa
            pass

    def add_effect(self, a, scope):
        rng = self.rng
        F = self.features
        fl = self.fl
        forall = self.p(F.get("forall_effects", 0.2))
        sc = list(scope)
        v = None
        if forall:
            v = Variable("fv", self.T)
            sc = sc + [v]
        cond = self.bexp(sc, 1, allow_quant=False) if self.p(F.get("conditional", 0.35)) else TRUE()
        kind = rng.random()
        try:
            names = list(fl)
            k = rng.choice(names)
            f = fl[k]
            if forall and f.arity == 1 and self._compatible(f.signature[0].type, self.T):
                target = f(v)
            elif f.arity == 1:
                target = f(self.oexp(scope, f.signature[0].type))
            else:
                target = f()
            kw = {"forall": (v,)} if forall else {}
            if f.type.is_bool_type():
                val = rng.choice([TRUE(), FALSE(), TRUE(), self.bexp(sc, 1, allow_quant=False)])
                if F.get("sane"):
                    val = rng.choice([TRUE(), FALSE()])
                a.add_effect(target, val, cond, **kw)
            elif f.type.is_int_type() or f.type.is_real_type():
                real = f.type.is_real_type()
                if kind < 0.4:
                    a.add_effect(target, self.nexp(sc, 1, real), cond, **kw)
                elif kind < 0.75:
                    a.add_increase_effect(target, self.nexp(sc, 1, real) if self.p(0.3) else Int(rng.randint(1, 2)), cond, **kw)
                else:
                    a.add_decrease_effect(target, Int(rng.randint(1, 2)), cond, **kw)
            else:
                a.add_effect(target, self.oexp(sc), cond, **kw)
        except Exception:  # noqa: conflicting/ill-typed effects are simply skipped
            pass

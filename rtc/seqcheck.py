"""Run-time contracts on the real sequential simulator / validators against spec.seqsem (bounded layer)."""
import warnings
from fractions import Fraction
from spec import seqsem
from spec.ev import UNDEF
from rtc.gen import Gen

import unified_planning as up
from unified_planning.model import UPState
from unified_planning.exceptions import UPStateMissingFluentError


def to_fnode(em, v):
    if isinstance(v, bool):
        return em.Bool(v)
    if isinstance(v, int):
        return em.Int(v)
    if isinstance(v, Fraction):
        return em.Real(v) if v.denominator != 1 else em.Int(v.numerator)
    return em.ObjectExp(v)


def mk_upstate(problem, state):
    em = problem.environment.expression_manager
    vals = {}
    for (f, args), v in state.items():
        fe = f(*args) if args else f()
        vals[fe] = to_fnode(em, v)
    return UPState(vals, problem)


def read_state(problem, upstate):
    """view of a real state through its public get_value, over every ground fluent"""
    out = {}
    for (f, args) in seqsem.ground_fluents(problem):
        fe = f(*args) if args else f()
        try:
            v = upstate.get_value(fe)
        except UPStateMissingFluentError:
            continue
        out[(f, args)] = v.object() if v.is_object_exp() else v.constant_value()
    return out


def same_state(a, b):
    if a.keys() != b.keys():
        return False
    return all(a[k] == b[k] for k in a)


def describe(problem, state, action=None, params=None):
    s = {f"{f.name}({','.join(o.name for o in args)})": (getattr(v, "name", str(v))) for (f, args), v in state.items()}
    d = {"problem": str(problem), "state": s}
    if action is not None:
        d["action"] = f"{action.name}({','.join(o.name for o in params)})"
    return d


def explore(problem, depth, max_states=60):
    """reachable states under the reference semantics, breadth first"""
    init = seqsem.initial_state(problem)
    seen = {seqsem.freeze(init): init}
    frontier = [init]
    levels = [[init]]
    gas = seqsem.ground_actions(problem)
    for d in range(depth):
        nxt = []
        for st in frontier:
            for (a, ps) in gas:
                try:
                    s2 = seqsem.successor(problem, st, a, ps)
                except seqsem.Ambiguous:
                    continue
                if s2 is None:
                    continue
                k = seqsem.freeze(s2)
                if k not in seen and len(seen) < max_states:
                    seen[k] = s2
                    nxt.append(s2)
        frontier = nxt
        levels.append(nxt)
    return list(seen.values()), gas


def static_conflict_after_grounding(pr, a, ps):
    """True when grounding `a` with `ps` yields two UNCONDITIONAL assignments (condition simplifies to true once the parameters are
    substituted) of one ground non-Boolean fluent whose value expressions differ syntactically: the library then refuses to build the
    ground action (static conflict check), whatever the values evaluate to in the state at hand -- a known deviation (see known_findings)"""
    try:
        subs = dict(zip([pr.environment.expression_manager.ParameterExp(p_) for p_ in a.parameters],
                        [pr.environment.expression_manager.ObjectExp(o) if hasattr(o, "type") and not hasattr(o, "node_type") else o for o in ps]))
        seen = {}
        for e in a.effects:
            for ee in e.expand_effect(pr):
                if not ee.is_assignment() or ee.fluent.type.is_bool_type():
                    continue
                if not ee.condition.substitute(subs).simplify().is_true():
                    continue
                f, v = ee.fluent.substitute(subs).simplify(), ee.value.substitute(subs).simplify()
                if f in seen and seen[f] != v:
                    return True
                seen.setdefault(f, v)
    except Exception:  # noqa
        return False
    return False


STATIC_TAG = "ground-action-has-two-unconditional-assignments-of-one-fluent-with-syntactically-different-values"


def crafted_nested_invariant(s):
    """a state invariant that reads one fluent through another (`ok(target)`): the ground fluent the invariant depends on changes with
    the state, and an action can break the invariant by writing a ground fluent that occurs nowhere in it syntactically"""
    import random
    from unified_planning.shortcuts import (Problem, Fluent, InstantaneousAction, UserType, Object, BoolType, IntType, Not, And, Or, Equals)
    rng = random.Random(s)
    pr = Problem(f"nested{s}")
    T = UserType("T")
    objs = [Object(f"o{i}", T) for i in range(rng.randint(2, 3))]
    pr.add_objects(objs)
    positive = rng.random() < 0.5
    ok = Fluent("ok", BoolType(), x=T)
    target = Fluent("target", T)
    cnt = Fluent("cnt", IntType(0, 3))
    pr.add_fluent(ok, default_initial_value=positive)
    pr.add_fluent(target, default_initial_value=rng.choice(objs))
    pr.add_fluent(cnt, default_initial_value=0)
    inv = ok(target()) if positive else Not(ok(target()))
    if rng.random() < 0.3:
        inv = Or(inv, Equals(cnt(), 3))
    pr.add_state_invariant(inv)
    brk = InstantaneousAction("brk", x=T)
    brk.add_effect(ok(brk.x), not positive)
    if rng.random() < 0.4:
        brk.add_increase_effect(cnt(), 1)           # touches a bounded fluent as well (re-enables every check)
    fix = InstantaneousAction("fix", x=T)
    fix.add_effect(ok(fix.x), positive)
    ret = InstantaneousAction("retarget", x=T)
    if rng.random() < 0.5:
        ret.add_precondition(ok(ret.x) if positive else Not(ok(ret.x)))
    ret.add_effect(target(), ret.x)
    for a in (brk, fix, ret):
        pr.add_action(a)
    pr.add_goal(ok(objs[-1]) if rng.random() < 0.5 else Not(ok(objs[0])))
    return pr


def crafted_nested_quantifiers(s):
    """conditions with a quantifier nested inside another one, including an inner quantifier that SHADOWS the variable of the enclosing one
    (same name and type) next to a sub-formula that reads the outer variable, in both argument orders: `Forall x (p(x) and Exists x q(x))`,
    `Exists x ((Exists x q(x)) and not p(x))`, distinct-name nestings, two-variable quantifiers.  Used as precondition, effect condition and goal"""
    import random
    from unified_planning.shortcuts import (Problem, Fluent, InstantaneousAction, UserType, Object, BoolType, IntType, Variable, Not, And, Or,
                                            Exists, Forall, Implies)
    rng = random.Random(s)
    pr = Problem(f"nestedq{s}")
    T = UserType("T")
    objs = [Object(f"o{i}", T) for i in range(3)]
    pr.add_objects(objs)
    p, q = Fluent("p", BoolType(), x=T), Fluent("q", BoolType(), x=T)
    cnt, done = Fluent("cnt", IntType(0, 3)), Fluent("done", BoolType())
    pr.add_fluent(p, default_initial_value=False)
    pr.add_fluent(q, default_initial_value=False)
    pr.add_fluent(cnt, default_initial_value=0)
    pr.add_fluent(done, default_initial_value=False)
    for o in objs:
        pr.set_initial_value(p(o), rng.random() < 0.6)
        pr.set_initial_value(q(o), rng.random() < 0.4)
    x, y = Variable("x", T), Variable("y", T)

    def formula():
        inner_var = x if rng.random() < 0.7 else y          # 70%: shadowing
        inner = (Exists if rng.random() < 0.6 else Forall)(rng.choice([q(inner_var), Not(q(inner_var)), Or(q(inner_var), p(inner_var))]), inner_var)
        outer_atom = rng.choice([p(x), Not(p(x)), q(x)])
        conn = rng.choice([And, Or, Implies])
        body = conn(outer_atom, inner) if rng.random() < 0.5 else conn(inner, outer_atom)
        if rng.random() < 0.2:
            body = And(body, (Exists if rng.random() < 0.5 else Forall)(Or(p(x), q(y)), x, y))
        return (Forall if rng.random() < 0.5 else Exists)(body, x)
    test = InstantaneousAction("test")
    test.add_precondition(formula())
    test.add_effect(done, True)
    count = InstantaneousAction("count")
    count.add_increase_effect(cnt, 1, formula())
    count.add_precondition(Not(done))
    flip_p = InstantaneousAction("flip_p", a=T)
    flip_p.add_effect(p(flip_p.a), True, Not(p(flip_p.a)))
    flip_p.add_effect(p(flip_p.a), False, p(flip_p.a))
    set_q = InstantaneousAction("set_q", a=T)
    set_q.add_effect(q(set_q.a), rng.random() < 0.7)
    for a in (test, count, flip_p, set_q):
        pr.add_action(a)
    pr.add_goal(formula() if rng.random() < 0.6 else done)
    return pr


def crafted_duplicate_assignments(s):
    """one ground action that assigns the SAME numeric / object fluent twice (two conditional effects, or an increase by 0 and an assignment),
    where in some reachable states the first assignment re-assigns the value the fluent already has and the second one a different value:
    a conflict in those states only"""
    import random
    from unified_planning.shortcuts import (Problem, Fluent, InstantaneousAction, UserType, Object, BoolType, IntType, Not, And, Or, Equals, GE, LE, Int)
    rng = random.Random(s)
    pr = Problem(f"dupassign{s}")
    T = UserType("T")
    objs = [Object(f"o{i}", T) for i in range(3)]
    pr.add_objects(objs)
    lever, gear, done = Fluent("lever", IntType(0, 3)), Fluent("gear", T), Fluent("done", BoolType())
    pr.add_fluent(lever, default_initial_value=rng.randint(0, 1))
    pr.add_fluent(gear, default_initial_value=objs[0])
    pr.add_fluent(done, default_initial_value=False)
    shift = InstantaneousAction("shift")
    shift.add_precondition(LE(lever, 2))
    shift.add_increase_effect(lever, 1)
    drive = InstantaneousAction("drive")
    a, b = rng.sample([1, 2, 3], 2)
    shape = rng.randint(0, 2)
    if shape == 0:
        drive.add_effect(lever, Int(a), Equals(lever, a) if rng.random() < 0.6 else GE(lever, a))       # re-assigns the current value when lever == a
        drive.add_effect(lever, Int(b), GE(lever, 1))
    elif shape == 1:
        drive.add_increase_effect(lever, 0, GE(lever, 1))
        drive.add_effect(lever, Int(b), GE(lever, a))
    else:
        drive.add_effect(lever, Int(b), GE(lever, 1))
        drive.add_effect(lever, Int(a), GE(lever, a))
    drive.add_effect(done, True)
    engage = InstantaneousAction("engage", x=T, y=T)
    engage.add_effect(gear, engage.x, Equals(gear, engage.x) if rng.random() < 0.5 else Not(done))   # object fluent: same pattern over parameters
    engage.add_effect(gear, engage.y, Or(done, GE(lever, 1)))
    for act in (shift, drive, engage):
        pr.add_action(act)
    pr.add_goal(done)
    return pr


def crafted_problems(seed, per_family):
    """(seed_i, problem) from the three crafted families only -- a directed prefix for callers that restrict the grammar of `problems`, so that
    their random stream stays what it was"""
    for fam_i, fam in enumerate((crafted_nested_invariant, crafted_nested_quantifiers, crafted_duplicate_assignments)):
        for j in range(per_family):
            s = 8_000_000 + (seed % 1000) * 1000 + fam_i * 100 + j
            try:
                with warnings.catch_warnings():
                    warnings.simplefilter("ignore")
                    pr = fam(s)
                st0 = seqsem.initial_state(pr)
                if not seqsem.initial_ok(pr, st0):
                    continue
            except Exception:  # noqa
                continue
            yield s, pr


def problems(seed, count, features=None, need=None):
    """yields (seed_i, problem) for well-formed generated problems whose initial state is legal; three of every eight problems come from the
    crafted families `crafted_nested_invariant` / `crafted_nested_quantifiers` / `crafted_duplicate_assignments` when the caller does not restrict the grammar (features=None: C01, C02) or asks for it"""
    i = 0
    produced = 0
    while produced < count and i < count * 6:
        s = seed * 100003 + i
        i += 1
        try:
            with warnings.catch_warnings():
                warnings.simplefilter("ignore")
                if i % 8 == 3 and need is None and (features is None or features.get("crafted_nested")):
                    pr = crafted_nested_invariant(s)
                elif i % 8 == 6 and need is None and (features is None or features.get("crafted_nested")):
                    pr = crafted_nested_quantifiers(s)
                elif i % 8 == 1 and need is None and (features is None or features.get("crafted_nested")):
                    pr = crafted_duplicate_assignments(s)
                else:
                    pr = Gen(s, features).problem(f"g{s}")
        except Exception:  # noqa
            continue
        try:
            st0 = seqsem.initial_state(pr)
            if not seqsem.initial_ok(pr, st0):
                continue
        except Exception:  # noqa: the stored model is not evaluable (e.g. a simplification left a free variable)
            continue
        if need is not None and not need(pr):
            continue
        produced += 1
        yield s, pr

"""Run-time contracts on the real sequential simulator / validators against spec.seqsem (bounded layer)."""
import warnings
from fractions import Fraction
from spec import seqsem
from spec.ev import UNDEF
from rtc.gen import Gen

import unified_planning as up
from unified_planning.model import UPState
from unified_planning.exceptions import UPStateMissingFluentError


def to_fnode(em, v):
    if isinstance(v, bool):
        return em.Bool(v)
    if isinstance(v, int):
        return em.Int(v)
    if isinstance(v, Fraction):
        return em.Real(v) if v.denominator != 1 else em.Int(v.numerator)
    return em.ObjectExp(v)


def mk_upstate(problem, state):
    em = problem.environment.expression_manager
    vals = {}
    for (f, args), v in state.items():
        fe = f(*args) if args else f()
        vals[fe] = to_fnode(em, v)
    return UPState(vals, problem)


def read_state(problem, upstate):
    """view of a real state through its public get_value, over every ground fluent"""
    out = {}
    for (f, args) in seqsem.ground_fluents(problem):
        fe = f(*args) if args else f()
        try:
            v = upstate.get_value(fe)
        except UPStateMissingFluentError:
            continue
        out[(f, args)] = v.object() if v.is_object_exp() else v.constant_value()
    return out


def same_state(a, b):
    if a.keys() != b.keys():
        return False
    return all(a[k] == b[k] for k in a)


def describe(problem, state, action=None, params=None):
    s = {f"{f.name}({','.join(o.name for o in args)})": (getattr(v, "name", str(v))) for (f, args), v in state.items()}
    d = {"problem": str(problem), "state": s}
    if action is not None:
        d["action"] = f"{action.name}({','.join(o.name for o in params)})"
    return d


def explore(problem, depth, max_states=60):
    """reachable states under the reference semantics, breadth first"""
    init = seqsem.initial_state(problem)
    seen = {seqsem.freeze(init): init}
    frontier = [init]
    levels = [[init]]
    gas = seqsem.ground_actions(problem)
    for d in range(depth):
        nxt = []
        for st in frontier:
            for (a, ps) in gas:
                try:
                    s2 = seqsem.successor(problem, st, a, ps)
                except seqsem.Ambiguous:
                    continue
                if s2 is None:
                    continue
                k = seqsem.freeze(s2)
                if k not in seen and len(seen) < max_states:
                    seen[k] = s2
                    nxt.append(s2)
        frontier = nxt
        levels.append(nxt)
    return list(seen.values()), gas


def problems(seed, count, features=None, need=None):
    """yields (seed_i, problem) for well-formed generated problems whose initial state is legal"""
    i = 0
    produced = 0
    while produced < count and i < count * 6:
        s = seed * 100003 + i
        i += 1
        try:
            with warnings.catch_warnings():
                warnings.simplefilter("ignore")
                pr = Gen(s, features).problem(f"g{s}")
        except Exception:  # noqa
            continue
        try:
            st0 = seqsem.initial_state(pr)
            if not seqsem.initial_ok(pr, st0):
                continue
        except Exception:  # noqa: the stored model is not evaluable (e.g. a simplification left a free variable)
            continue
        if need is not None and not need(pr):
            continue
        produced += 1
        yield s, pr

"""Run-time contracts on the real sequential simulator / validators against spec.seqsem (bounded layer)."""
import warnings
from fractions import Fraction
from spec import seqsem
from spec.ev import UNDEF
from rtc.gen import Gen

import unified_planning as up
from unified_planning.model import UPState
from unified_planning.exceptions import UPStateMissingFluentError


def to_fnode(em, v):
    if isinstance(v, bool):
        return em.Bool(v)
    if isinstance(v, int):
        return em.Int(v)
    if isinstance(v, Fraction):
        return em.Real(v) if v.denominator != 1 else em.Int(v.numerator)
    return em.ObjectExp(v)


def mk_upstate(problem, state):
    em = problem.environment.expression_manager
    vals = {}
    for (f, args), v in state.items():
        fe = f(*args) if args else f()
        vals[fe] = to_fnode(em, v)
    return UPState(vals, problem)


def read_state(problem, upstate):
    """view of a real state through its public get_value, over every ground fluent"""
    out = {}
    for (f, args) in seqsem.ground_fluents(problem):
        fe = f(*args) if args else f()
        try:
            v = upstate.get_value(fe)
        except UPStateMissingFluentError:
            continue
        out[(f, args)] = v.object() if v.is_object_exp() else v.constant_value()
    return out


def same_state(a, b):
    if a.keys() != b.keys():
        return False
    return all(a[k] == b[k] for k in a)


def describe(problem, state, action=None, params=None):
    s = {f"{f.name}({','.join(o.name for o in args)})": (getattr(v, "name", str(v))) for (f, args), v in state.items()}
    d = {"problem": str(problem), "state": s}
    if action is not None:
        d["action"] = f"{action.name}({','.join(o.name for o in params)})"
    return d


def explore(problem, depth, max_states=60):
    """reachable states under the reference semantics, breadth first"""
    init = seqsem.initial_state(problem)
    seen = {seqsem.freeze(init): init}
    frontier = [init]
    levels = [[init]]
    gas = seqsem.ground_actions(problem)
    for d in range(depth):
        nxt = []
        for st in frontier:
            for (a, ps) in gas:
                try:
                    s2 = seqsem.successor(problem, st, a, ps)
                except seqsem.Ambiguous:
                    continue
                if s2 is None:
                    continue
                k = seqsem.freeze(s2)
                if k not in seen and len(seen) < max_states:
                    seen[k] = s2
                    nxt.append(s2)
        frontier = nxt
        levels.append(nxt)
    return list(seen.values()), gas


def crafted_nested_invariant(s):
    """a state invariant that reads one fluent through another (`ok(target)`): the ground fluent the invariant depends on changes with
    the state, and an action can break the invariant by writing a ground fluent that occurs nowhere in it syntactically"""
    import random
    from unified_planning.shortcuts import (Problem, Fluent, InstantaneousAction, UserType, Object, BoolType, IntType, Not, And, Or, Equals)
    rng = random.Random(s)
    pr = Problem(f"nested{s}")
    T = UserType("T")
    objs = [Object(f"o{i}", T) for i in range(rng.randint(2, 3))]
    pr.add_objects(objs)
    positive = rng.random() < 0.5
    ok = Fluent("ok", BoolType(), x=T)
    target = Fluent("target", T)
    cnt = Fluent("cnt", IntType(0, 3))
    pr.add_fluent(ok, default_initial_value=positive)
    pr.add_fluent(target, default_initial_value=rng.choice(objs))
    pr.add_fluent(cnt, default_initial_value=0)
    inv = ok(target()) if positive else Not(ok(target()))
    if rng.random() < 0.3:
        inv = Or(inv, Equals(cnt(), 3))
    pr.add_state_invariant(inv)
    brk = InstantaneousAction("brk", x=T)
    brk.add_effect(ok(brk.x), not positive)
    if rng.random() < 0.4:
        brk.add_increase_effect(cnt(), 1)           # touches a bounded fluent as well (re-enables every check)
    fix = InstantaneousAction("fix", x=T)
    fix.add_effect(ok(fix.x), positive)
    ret = InstantaneousAction("retarget", x=T)
    if rng.random() < 0.5:
        ret.add_precondition(ok(ret.x) if positive else Not(ok(ret.x)))
    ret.add_effect(target(), ret.x)
    for a in (brk, fix, ret):
        pr.add_action(a)
    pr.add_goal(ok(objs[-1]) if rng.random() < 0.5 else Not(ok(objs[0])))
    return pr


def problems(seed, count, features=None, need=None):
    """yields (seed_i, problem) for well-formed generated problems whose initial state is legal; every eighth problem comes from the
    crafted family `crafted_nested_invariant` when the caller does not restrict the grammar (features=None: C01, C02) or asks for it"""
    i = 0
    produced = 0
    while produced < count and i < count * 6:
        s = seed * 100003 + i
        i += 1
        try:
            with warnings.catch_warnings():
                warnings.simplefilter("ignore")
                if i % 8 == 3 and need is None and (features is None or features.get("crafted_nested")):
                    pr = crafted_nested_invariant(s)
                else:
                    pr = Gen(s, features).problem(f"g{s}")
        except Exception:  # noqa
            continue
        try:
            st0 = seqsem.initial_state(pr)
            if not seqsem.initial_ok(pr, st0):
                continue
        except Exception:  # noqa: the stored model is not evaluable (e.g. a simplification left a free variable)
            continue
        if need is not None and not need(pr):
            continue
        produced += 1
        yield s, pr

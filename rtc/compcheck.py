"""C06/C07/C08/C09 bounded checks over the shared compiler harness (one pass computes all four)."""
import random
import warnings
from rtc import compilers as RC
from rtc import seqcheck as SC
from spec import seqsem, pddl3


def signature(label, exc=None, pr=None):
    if exc is not None:
        comp = label.split('+')[0]
        return f"{comp}:{type(exc).__name__}"
    return "unclassified"


def _subexps(e):
    stack = [e]
    while stack:
        x = stack.pop()
        yield x
        stack.extend(x.args)


def plan_tags(pr, plan):
    """structural features of an original plan used to key known findings to the specific input shape"""
    tags = set()
    if len(pr.user_types) > 1 and (any(e.is_equals() for a in pr.actions for c in a.preconditions for e in _subexps(c)) or
                                   any(e.is_equals() for g in pr.goals for e in _subexps(g)) or
                                   any(e.is_equals() for a in pr.actions for eff in a.effects for e in _subexps(eff.condition))):
        tags.add("equality-under-hierarchical-typing")     # wherever the negative-conditions remover rewrites conditions: preconditions, goals, effect conditions
    for a, ps in plan:
        seen = {}
        for e in a.effects:
            if e.is_assignment():
                f = e.fluent.fluent()
                seen[f] = seen.get(f, 0) + (2 if e.is_forall() else 1)
        for f, n in seen.items():
            if n >= 2:
                tags.add("bool-fluent-assigned-twice-in-one-action" if f.type.is_bool_type()
                         else "nonbool-fluent-assigned-twice-in-one-action")
    for a, ps in plan:
        for e in a.effects:
            if (e.is_increase() or e.is_decrease()) and e.is_conditional() and any(x.is_or() or x.is_implies() or x.is_iff() or
                                                                                   (x.is_not() and (x.arg(0).is_and() or x.arg(0).is_implies()))
                                                                                   for x in _subexps(e.condition)):
                tags.add("increase-or-decrease-under-a-disjunctive-effect-condition")
    try:
        st = seqsem.initial_state(pr)
        for a, ps in plan:
            nxt = seqsem.successor(pr, st, a, ps)
            if nxt is None:
                break
            if SC.same_state(nxt, st):
                tags.add("instance-that-changes-nothing")
            st = nxt
    except Exception:  # noqa
        pass
    return ",".join(sorted(tags)) or "plain"


def quantifier_sites(cp):
    """where quantifiers occur in a problem (to key kind findings to the construct that carries them)"""
    sites = set()

    def has_q(e):
        return any(x.is_exists() or x.is_forall() for x in _subexps(e))
    for tc in cp.trajectory_constraints:
        if has_q(tc):
            sites.add("trajectory_constraints")
    for g in cp.goals:
        if has_q(g):
            sites.add("goals")
    for gl in getattr(cp, "timed_goals", {}).values():
        if any(has_q(g) for g in gl):
            sites.add("timed_goals")
    for a in cp.actions:
        conds = list(getattr(a, "preconditions", []))
        if hasattr(a, "conditions"):
            conds += [c for cl in a.conditions.values() for c in cl]
        effs = getattr(a, "effects", [])
        if isinstance(effs, dict):
            effs = [e for el in effs.values() for e in el]
        if any(has_q(c) for c in conds) or any(has_q(e.condition) or has_q(e.value) for e in effs):
            sites.add("actions")
    return "+".join(sorted(sites)) or "nowhere"


def rebound_variables(pr):
    """variables bound by a quantifier that lies in the scope of another quantifier binding the same variable (same name and type), over every
    expression of the problem"""
    out = set()

    def walk(e, outer):
        if e.is_exists() or e.is_forall():
            here = set(e.variables())
            out.update(v for v in here if v in outer)
            outer = outer | here
        for a in e.args:
            walk(a, outer)
    for a in pr.actions:
        for c in getattr(a, "preconditions", []):
            walk(c, frozenset())
        conds = getattr(a, "conditions", None)
        if isinstance(conds, dict):
            for cl in conds.values():
                for c in cl:
                    walk(c, frozenset())
        effs = getattr(a, "effects", [])
        if isinstance(effs, dict):
            effs = [e for el in effs.values() for e in el]
        for e in effs:
            for x in (e.fluent, e.value, e.condition):
                walk(x, frozenset(e.forall) if getattr(e, "forall", None) else frozenset())
    for g in pr.goals:
        walk(g, frozenset())
    for tc in getattr(pr, "trajectory_constraints", []):
        walk(tc, frozenset())
    return out


def wellformed(cp, orig=None):
    """independent well-formedness check of a compiled problem: unique names, declared references; with the original problem given: no variable
    is bound again inside the scope of a quantifier binding the same variable unless the original problem already does that (a compiler's fresh
    variable that captures -- or is captured by -- a variable of the model)"""
    bad = []
    if orig is not None:
        try:
            again = {v.name for v in rebound_variables(cp)} - {v.name for v in rebound_variables(orig)}
        except Exception:  # noqa: an expression shape this scan does not cover
            again = set()
        if again:
            bad.append(f"variable name(s) {sorted(again)} bound again inside the scope of a quantifier binding the same variable (not so in the original problem)")
    names = [f.name for f in cp.fluents] + [a.name for a in cp.actions] + [o.name for o in cp.all_objects] + \
            [t.name for t in cp.user_types]
    dup = {n for n in names if names.count(n) > 1}
    if dup:
        bad.append(f"duplicate names {sorted(dup)}")
    env = cp.environment
    fve, one = env.free_vars_extractor, env.names_extractor
    fluents = set(cp.fluents)
    objs = set(cp.all_objects)

    def check_exp(e, where, params=()):
        for fe in fve.get(e):
            if fe.fluent() not in fluents:
                bad.append(f"{where}: undeclared fluent {fe.fluent().name}")
        stack = [e]
        while stack:
            x = stack.pop()
            if x.is_object_exp() and x.object() not in objs:
                bad.append(f"{where}: undeclared object {x.object().name}")
            if x.is_parameter_exp() and x.parameter() not in params:
                bad.append(f"{where}: foreign parameter {x.parameter().name}")
            stack.extend(x.args)
    for a in cp.actions:
        ps = set(a.parameters)
        for c in getattr(a, "preconditions", []):
            check_exp(c, f"action {a.name} precondition", ps)
        effs = getattr(a, "effects", [])
        if isinstance(effs, dict):
            effs = [e for el in effs.values() for e in el]
        for e in effs:
            for x in (e.fluent, e.value, e.condition):
                check_exp(x, f"action {a.name} effect", ps)
    for g in cp.goals:
        check_exp(g, "goal")
    for f, v in cp.explicit_initial_values.items():
        check_exp(f, "initial value")
    return bad


def run(tier, seed, want):
    """want: subset of {"C06","C07","C08","C09"}; returns dict prop -> bounded result"""
    nprob, maxlen, cap = (40, 2, 25) if tier == "quick" else (250, 3, 80)
    res = {p: {"failures": [], "evaluations": 0, "nontrivial": set(), "samples": []} for p in want}
    compiled_ok = 0
    with warnings.catch_warnings():
        warnings.simplefilter("ignore")
        for label, cks, s, pr in RC.cases(seed, nprob):
            rng = random.Random(s)
            desc = {"compilers": label, "problem": str(pr)}
            try:
                results, cp = RC.compile_with(pr, cks)
            except Exception as e:  # noqa
                if "NOT SOLVABLE" in str(e):
                    continue       # documented rejection: the compiler detected an unsolvable problem
                if "C08" in want:
                    res["C08"]["evaluations"] += 1
                    res["C08"]["failures"].append({"what": f"{label} seed {s}: compile raised {type(e).__name__}: {' '.join(str(e)[:120].split())} "
                                                           f"[{cks[0].name}:{type(e).__name__}]", "concrete": desc, "observed": repr(e)})
                continue
            if results is None:
                continue
            compiled_ok += 1
            if "C08" in want:
                r8 = res["C08"]
                r8["evaluations"] += 1
                r8["nontrivial"].add((label, s))
                bad = wellformed(cp, pr)
                if any(r.plan_back_conversion is None for r in results):
                    bad.append("no plan_back_conversion on the compilation result")
                for b in bad:
                    r8["failures"].append({"what": f"{label} seed {s}: {b}", "concrete": desc | {"compiled": str(cp)}, "observed": b})
                if len(r8["samples"]) < 3:
                    r8["samples"].append({"compilers": label, "problem": pr.name, "compiled_actions": len(cp.actions)})
            if "C09" in want:
                r9 = res["C09"]
                declared = pr.kind
                for ck in cks:
                    declared = RC.get_compiler(ck).resulting_problem_kind(declared, ck)
                r9["evaluations"] += 1
                r9["nontrivial"].add((label, s))
                if not (cp.kind <= declared):
                    extra = sorted(set(cp.kind.features) - set(declared.features))
                    where = f"@{quantifier_sites(cp)}" if any(x in extra for x in ("EXISTENTIAL_CONDITIONS", "UNIVERSAL_CONDITIONS")) else ""
                    r9["failures"].append({"what": f"{label} seed {s}: compiled kind has features {extra} outside the declared resulting kind "
                                                   f"[{cks[0].name}:{','.join(extra)}{where}]", "concrete": desc, "observed": extra})
                elif len(r9["samples"]) < 3:
                    r9["samples"].append({"compilers": label, "problem": pr.name, "compiled_kind": sorted(cp.kind.features)[:8]})
            if not ({"C06", "C07"} & set(want)):
                continue
            # compilers that may add a final goal-achieving action: bound k+1
            if label.startswith("crafted:") and any(not hasattr(a, "preconditions") for a in pr.actions):
                continue        # temporal crafted problems: only the compile-level checks (C08, C09) apply
            extra_len = 1 if any(ck in (RC.CK.TRAJECTORY_CONSTRAINTS_REMOVING, RC.CK.DISJUNCTIVE_CONDITIONS_REMOVING) for ck in cks) else 0
            if label.startswith("crafted:"):
                maxlen_, cap_ = 3, 400       # crafted problems are tiny: explore them deeper
            else:
                maxlen_, cap_ = maxlen, cap
            try:
                cplans = RC.valid_plans(cp, maxlen_ + extra_len, cap_, rng)
            except Exception as e:  # noqa: reference semantics does not cover something in the compiled problem
                continue
            mapped = set()
            for cplan in cplans:
                try:
                    back = RC.map_back(results, RC.to_plan(cplan))
                    oplan = RC.from_plan(back)
                except Exception as e:  # noqa
                    if "C06" in want:
                        res["C06"]["failures"].append({"what": f"{label} seed {s}: mapping a compiled plan back raised {type(e).__name__}: {' '.join(str(e)[:100].split())} "
                                                               f"[{signature(label, e)}]", "concrete": desc | {"compiled_plan": RC.pname(cplan)}, "observed": repr(e)})
                    continue
                mapped.add(tuple(RC.pname(oplan)))
                if "C06" in want:
                    r6 = res["C06"]
                    r6["evaluations"] += 1
                    oracle = ""
                    try:
                        ok = RC.is_valid(pr, oplan)
                    except (seqsem.Ambiguous, pddl3.Ambiguous):
                        if RC.CK.UNDEFINED_INITIAL_NUMERIC_REMOVING not in cks:
                            continue
                        # the reference semantics leaves reads of an undefined fluent open; THIS compiler's documented contract is that such a
                        # read makes the action inapplicable, which is what the library's own sequential validator implements: use it as the
                        # oracle for the original side (labelled in the message)
                        try:
                            from unified_planning.engines.plan_validator import SequentialPlanValidator
                            from unified_planning.engines.results import ValidationResultStatus
                            from unified_planning.plans import SequentialPlan, ActionInstance
                            with warnings.catch_warnings():
                                warnings.simplefilter("ignore")
                                vr = SequentialPlanValidator(environment=pr.environment).validate(
                                    pr, SequentialPlan([ActionInstance(a_, tuple(ps_)) for a_, ps_ in oplan]))
                            ok = vr.status == ValidationResultStatus.VALID
                            oracle = " (original side judged by the library's sequential validator: the plan reads an undefined fluent)"
                        except Exception:  # noqa
                            continue
                    if cplan:
                        r6["nontrivial"].add((label, s, tuple(RC.pname(cplan))))
                    if not ok:
                        r6["failures"].append({"what": f"{label} seed {s}: a plan valid for the compiled problem maps back to an invalid plan{oracle} "
                                                       f"[{cks[0].name}:{plan_tags(pr, oplan)}]", "concrete": desc | {"compiled_plan": RC.pname(cplan), "mapped_back": RC.pname(oplan), "compiled": str(cp)},
                                               "observed": RC.pname(oplan)})
                    elif len(r6["samples"]) < 3 and cplan:
                        r6["samples"].append({"compilers": label, "compiled_plan": RC.pname(cplan), "mapped_back": RC.pname(oplan)})
            if "C07" in want and len(cplans) < cap_:
                r7 = res["C07"]
                try:
                    oplans = RC.valid_plans(pr, maxlen_, cap_, rng)
                except Exception:  # noqa
                    oplans = []
                if len(oplans) < cap_:
                    for oplan in oplans:
                        r7["evaluations"] += 1
                        if oplan:
                            r7["nontrivial"].add((label, s, tuple(RC.pname(oplan))))
                        if tuple(RC.pname(oplan)) not in mapped:
                            r7["failures"].append({"what": f"{label} seed {s}: a valid plan of the original problem has no counterpart of length <= "
                                                           f"{maxlen_ + extra_len} in the compiled problem [{cks[0].name}:{plan_tags(pr, oplan)}]",
                                                   "concrete": desc | {"plan": RC.pname(oplan), "compiled": str(cp)}, "observed": sorted(mapped)[:5]})
                        elif len(r7["samples"]) < 3 and oplan:
                            r7["samples"].append({"compilers": label, "plan": RC.pname(oplan)})
    out = {}
    from rtc.known import is_known
    for p, r in res.items():
        # failures not covered by a known finding first: the cap must never cut a new violation in favour of listed ones
        r["failures"].sort(key=lambda f, p=p: is_known(p, f["what"]))
        out[p] = {"evaluations": r["evaluations"], "distinct_nontrivial": len(r["nontrivial"]), "failures": r["failures"][:60],
                  "samples": r["samples"], "compiled_problems": compiled_ok,
                  "bound": f"{nprob} problems per compiler/pipeline, plans <= {maxlen}, <= {cap} plans per problem",
                  "rule": f"10 compilers + 3 two-stage pipelines x {nprob} generated problems inside the first compiler's supported kind "
                          f"(features tuned so that the removed construct occurs); plans enumerated by DFS on the reference semantics "
                          f"(PDDL3 trajectory constraints judged over the state sequence)"}
    return out

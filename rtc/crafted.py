"""Hand-built small problems for the compiler checks: shapes a random grammar rarely produces (static fluents with a
true default, names that collide after suffixing / joining, every trajectory-constraint kind with establishing and
destroying actions, quantifiers inside timed goals).  Each entry: (label, compilation kinds, problem)."""
from fractions import Fraction
from unified_planning.shortcuts import (GE, Problem, Fluent, InstantaneousAction, DurativeAction, UserType, Object, BoolType, IntType,
                                        Variable, Exists, Forall, And, Or, Not, Equals, Always, Sometime, AtMostOnce,
                                        SometimeBefore, SometimeAfter, GlobalStartTiming, ClosedTimeInterval, StartTiming, EndTiming)
from unified_planning.engines import CompilationKind as CK


def static_default_true():
    pr = Problem("static_default_true")
    L = UserType("L")
    l1, l2, l3 = (Object(n, L) for n in ("l1", "l2", "l3"))
    pr.add_objects([l1, l2, l3])
    ok = Fluent("ok", BoolType(), x=L)              # static, default true, one explicit false
    seen = Fluent("seen", BoolType(), x=L)
    linked = Fluent("linked", BoolType(), a=L, b=L)  # static, default false, explicit trues
    pr.add_fluent(ok, default_initial_value=True)
    pr.add_fluent(seen, default_initial_value=False)
    pr.add_fluent(linked, default_initial_value=False)
    pr.set_initial_value(ok(l2), False)
    pr.set_initial_value(ok(l1), True)
    pr.set_initial_value(linked(l1, l3), True)
    visit = InstantaneousAction("visit", x=L)
    visit.add_precondition(ok(visit.parameter("x")))
    visit.add_effect(seen(visit.parameter("x")), True)
    hop = InstantaneousAction("hop", a=L, b=L)
    hop.add_precondition(linked(hop.parameter("a"), hop.parameter("b")))
    hop.add_precondition(seen(hop.parameter("a")))
    hop.add_effect(seen(hop.parameter("b")), True)
    pr.add_action(visit)
    pr.add_action(hop)
    pr.add_goal(seen(l3))
    return pr


def colliding_names(order):
    """a conditional action `tick` that splits into variants and unconditional actions named like the variants"""
    pr = Problem("colliding_names_" + "_".join(order))
    a, b, c = Fluent("a", BoolType()), Fluent("b", BoolType()), Fluent("c", BoolType())
    for f in (a, b, c):
        pr.add_fluent(f, default_initial_value=False)
    acts = {}
    tick = InstantaneousAction("tick")
    tick.add_effect(b, True, a)
    tick.add_effect(c, True, Not(a))
    acts["tick"] = tick
    t0 = InstantaneousAction("tick_0")
    t0.add_effect(a, True)
    acts["tick_0"] = t0
    t1 = InstantaneousAction("tick_1")
    t1.add_effect(a, False)
    acts["tick_1"] = t1
    for n in order:
        pr.add_action(acts[n])
    pr.add_goal(And(b, c))
    return pr


def colliding_names_disjunctive(order):
    """an action `tick` with a disjunctive precondition (split into pieces by the disjunctive-conditions remover) next to plain actions named
    like the pieces the remover generates (`tick_0`, `tick_1`, `tick_0_0`), in every declaration order"""
    pr = Problem("colliding_names_disjunctive_" + "_".join(order))
    a, b, c = Fluent("a", BoolType()), Fluent("b", BoolType()), Fluent("c", BoolType())
    for f in (a, b, c):
        pr.add_fluent(f, default_initial_value=False)
    acts = {}
    tick = InstantaneousAction("tick")
    tick.add_precondition(Or(a, Not(b)))
    tick.add_effect(c, True)
    acts["tick"] = tick
    for nm, f, v in (("tick_0", a, True), ("tick_1", b, True), ("tick_0_0", b, False)):
        t = InstantaneousAction(nm)
        t.add_effect(f, v)
        acts[nm] = t
    for n in order:
        pr.add_action(acts[n])
    pr.add_goal(And(a, c))
    return pr


def quantified_variable_named_like_fresh(varname, marked_l2):
    """an object-valued fluent `pos(r) -> Loc` (type name capitalised) read inside a quantifier of the goal whose variable carries a name the
    usertype-fluents remover derives for its own fresh variable (`pos_loc`, `pos_Loc`, `pos_loc_0`)"""
    pr = Problem(f"quantified_variable_named_like_fresh_{varname}_{marked_l2}")
    Robot, Loc = UserType("Robot"), UserType("Loc")
    pos = Fluent("pos", Loc, r=Robot)
    marked = Fluent("marked", BoolType(), l=Loc)
    r1, l1, l2 = Object("r1", Robot), Object("l1", Loc), Object("l2", Loc)
    pr.add_fluent(pos)
    pr.add_fluent(marked, default_initial_value=False)
    pr.add_objects([r1, l1, l2])
    pr.set_initial_value(pos(r1), l1)
    pr.set_initial_value(marked(l2), marked_l2)
    move = InstantaneousAction("move", l_to=Loc)
    move.add_effect(pos(r1), move.parameter("l_to"))
    pr.add_action(move)
    mark = InstantaneousAction("mark", l=Loc)
    mark.add_precondition(Equals(pos(r1), mark.parameter("l")))
    mark.add_effect(marked(mark.parameter("l")), True)
    pr.add_action(mark)
    v = Variable(varname, Loc)
    pr.add_goal(Forall(Or(Equals(v, pos(r1)), Not(marked(v))), v))
    pr.add_goal(Exists(marked(v), v))
    return pr


def colliding_negation_names(names):
    """Boolean fluents named so that the names the negative-conditions remover derives for the companions (`not_<f>`, `not_<f>_0`) collide with
    each other or with declared fluents; every fluent occurs negated"""
    pr = Problem("colliding_negation_names_" + "_".join(names))
    fl = [Fluent(n, BoolType()) for n in names]
    for f in fl:
        pr.add_fluent(f, default_initial_value=False)
    for i, f in enumerate(fl):
        act = InstantaneousAction(f"set_{i}")
        act.add_precondition(Not(f))
        act.add_effect(f, True)
        pr.add_action(act)
    clear = InstantaneousAction("clear")
    clear.add_precondition(fl[0])
    clear.add_effect(fl[0], False)
    pr.add_action(clear)
    pr.add_goal(And(fl[0], Not(fl[-1])))
    return pr


def nested_quantifiers(site):
    """a quantifier nested inside the body of another quantifier (Forall r. Exists l. reachable(r, l), Exists r. Forall l. ...), in a precondition, in the
    condition of a conditional effect, or in a goal: the quantifiers remover has to expand the inner one inside every copy of the outer one"""
    pr = Problem(f"nested_quantifiers_{site}")
    R, L = UserType("Robot"), UserType("Loc")
    rs, ls = [Object(f"r{i}", R) for i in (1, 2)], [Object(f"l{i}", L) for i in (1, 2)]
    pr.add_objects(rs + ls)
    reach, done, mark = Fluent("reachable", BoolType(), r=R, l=L), Fluent("done", BoolType()), Fluent("mark", BoolType())
    pr.add_fluent(reach, default_initial_value=False)
    pr.add_fluent(done, default_initial_value=False)
    pr.add_fluent(mark, default_initial_value=False)
    pr.set_initial_value(reach(rs[0], ls[0]), True)
    r, l = Variable("r", R), Variable("l", L)
    fa_ex = Forall(Exists(reach(r, l), l), r)
    ex_fa = Exists(Forall(Or(reach(r, l), mark), l), r)
    move = InstantaneousAction("open", r=R, l=L)
    move.add_effect(reach(move.parameter("r"), move.parameter("l")), True)
    pr.add_action(move)
    fin = InstantaneousAction("finish")
    if site == "precondition":
        fin.add_precondition(fa_ex)
        fin.add_precondition(Not(ex_fa))
        fin.add_effect(done, True)
    elif site == "effect_condition":
        fin.add_effect(done, True, fa_ex)
        fin.add_effect(mark, True, ex_fa)
    else:
        fin.add_effect(done, True)
    pr.add_action(fin)
    pr.add_goal(done)
    if site == "goal":
        pr.add_goal(fa_ex)
    return pr


def existential_over_subtype_equated_to_supertype_term(site):
    """Exists (S v) (phi and v == t) where S is a strict subtype of T and t is an object of T that is NOT in S (or a T-valued fluent): no elimination of v
    by substitution is possible (t is not a legal value of v); the quantifier has to be kept or expanded over the objects of S"""
    pr = Problem(f"existential_over_subtype_{site}")
    T_, = (UserType("Thing"),)
    S_ = UserType("Small", T_)
    o0, s0 = Object("o0", T_), Object("s0", S_)
    pr.add_objects([o0, s0])
    p, done = Fluent("p", BoolType(), x=T_), Fluent("done", BoolType())
    pr.add_fluent(p, default_initial_value=True)
    pr.add_fluent(done, default_initial_value=False)
    v = Variable("v", S_)
    ex_obj = Exists(And(p(o0), Equals(v, o0)), v)          # false: no Small object is o0
    ex_self = Exists(And(p(v), Equals(v, s0)), v)           # p(s0)
    a = InstantaneousAction("go", x=T_)
    if site == "precondition":
        a.add_precondition(ex_self)
        never = InstantaneousAction("never", x=T_)
        never.add_precondition(Exists(And(p(never.parameter("x")), Equals(v, o0)), v))      # directly a precondition, with a parameter next to the equality
        never.add_effect(done, True)
        pr.add_action(never)
    a.add_effect(done, True, Not(ex_obj) if site == "effect_condition" else True)
    pr.add_action(a)
    pr.add_goal(done)
    if site == "goal":
        pr.add_goal(Not(ex_obj))
    return pr


def boolean_copy_assignment(src0, goal):
    """a Boolean fluent assigned the value of ANOTHER fluent (not a constant) whose negation a later action or the goal needs: the negative
    conditions remover has to keep the companion of the assigned fluent equal to the negated value"""
    pr = Problem(f"boolean_copy_assignment_{src0}_{goal}")
    src, dst, done = Fluent("src", BoolType()), Fluent("dst", BoolType()), Fluent("done", BoolType())
    pr.add_fluent(src, default_initial_value=src0)
    pr.add_fluent(dst, default_initial_value=not src0)
    pr.add_fluent(done, default_initial_value=False)
    flip = InstantaneousAction("flip_off")
    flip.add_precondition(src)
    flip.add_effect(src, False)
    on = InstantaneousAction("flip_on")
    on.add_precondition(Not(src))
    on.add_effect(src, True)
    sync = InstantaneousAction("sync")
    sync.add_effect(dst, src)
    fin = InstantaneousAction("finish")
    fin.add_precondition(Not(dst) if goal == "neg" else dst)
    fin.add_effect(done, True)
    for x in (flip, on, sync, fin):
        pr.add_action(x)
    pr.add_goal(done)
    return pr


def disjunctive_effect_condition(which, goal="both"):
    """conditional effects whose condition has several disjuncts in disjunctive normal form; initially exactly ONE disjunct (`which`) holds.  `win`
    is needed by the goal (completeness: the effect must still fire), `lose` is forbidden by it (soundness: it must not be lost)"""
    pr = Problem(f"disjunctive_effect_condition_{which}_{goal}")
    a, b, c, win, lose, done = (Fluent(n, BoolType()) for n in ("a", "b", "c", "win", "lose", "done"))
    for f in (a, b, c):
        pr.add_fluent(f, default_initial_value=False)
    pr.set_initial_value({"a": a, "b": b, "c": c}[which], True)
    for f in (win, lose, done):
        pr.add_fluent(f, default_initial_value=False)
    good = InstantaneousAction("good")
    good.add_effect(win, True, Or(a, b, c))
    risky = InstantaneousAction("risky")
    risky.add_effect(lose, True, Or(And(a, Not(b)), b, c))
    risky.add_effect(done, True)
    safe = InstantaneousAction("safe")
    safe.add_precondition(Or(win, lose))
    safe.add_effect(done, True)
    for x in (good, risky, safe):
        pr.add_action(x)
    pr.add_goal({"both": And(win, done, Not(lose)), "sound": And(done, Not(lose)), "complete": And(win, done)}[goal])
    return pr


def repeated_conditional_assignment(same_value):
    """two conditional effects of one action assign one fluent under different conditions -- the same value (the variant selecting both only
    repeats an assignment) or different values (the variant selecting both conflicts)"""
    pr = Problem("repeated_conditional_assignment_" + ("same" if same_value else "different"))
    power, sw, sw2, lit = (Fluent(n, BoolType()) for n in ("power", "sw", "sw2", "lit"))
    pr.add_fluent(power, default_initial_value=True)
    pr.add_fluent(sw, default_initial_value=False)
    pr.add_fluent(sw2, default_initial_value=False)
    pr.add_fluent(lit, default_initial_value=False)
    light = InstantaneousAction("light")
    light.add_precondition(power)
    light.add_effect(lit, True, sw)
    light.add_effect(lit, True if same_value else False, sw2)
    light.add_effect(power, False)
    for nm, f in (("press", sw), ("press2", sw2)):
        a = InstantaneousAction(nm)
        a.add_effect(f, True)
        pr.add_action(a)
    pr.add_action(light)
    pr.add_goal(And(lit, Not(power)))
    return pr


def separator_names():
    """object / parameter names containing the separator used when grounded names are joined"""
    pr = Problem("separator_names")
    L = UserType("L")
    objs = [Object(n, L) for n in ("a_b", "c", "a", "b_c")]
    pr.add_objects(objs)
    at = Fluent("at", BoolType(), x=L)
    pr.add_fluent(at, default_initial_value=False)
    pr.set_initial_value(at(objs[0]), True)
    pr.set_initial_value(at(objs[2]), True)
    move = InstantaneousAction("move", x=L, y=L)
    move.add_precondition(at(move.parameter("x")))
    move.add_effect(at(move.parameter("y")), True)
    move.add_effect(at(move.parameter("x")), False)
    pr.add_action(move)
    pr.add_goal(at(objs[1]))
    return pr


def trajectory(kind, p0=None, q0=None):
    """p0 / q0: initial values of the two constrained fluents (default: the combination used since the first version of the family)"""
    pr = Problem("trajectory_" + kind + ("" if p0 is None else f"_{int(p0)}{int(q0)}"))
    p, q, g = Fluent("p", BoolType()), Fluent("q", BoolType()), Fluent("g", BoolType())
    pr.add_fluent(p, default_initial_value=(kind in ("sometime_after", "always", "at_most_once")) if p0 is None else p0)
    pr.add_fluent(q, default_initial_value=(kind in ("sometime_after", "always")) if q0 is None else q0)
    pr.add_fluent(g, default_initial_value=False)
    for name, f, v, also_g in (("drop_q", q, False, True), ("make_q", q, True, False), ("drop_p", p, False, False),
                               ("make_p", p, True, True)):
        a = InstantaneousAction(name)
        a.add_effect(f, v)
        if also_g:
            a.add_effect(g, True)
        pr.add_action(a)
    pr.add_goal(g)
    tc = {"always": Always(Or(p, q)), "sometime": Sometime(And(p, Not(q))), "at_most_once": AtMostOnce(p),
          "sometime_before": SometimeBefore(p, q), "sometime_after": SometimeAfter(p, q)}[kind]
    pr.add_trajectory_constraint(tc)
    return pr


def invariant_with_trajectory(shape):
    """a state invariant given INSIDE a trajectory-constraint conjunction (what `(:constraints (and (always ...) (sometime ...)))` reads as),
    for the state-invariants remover: the Always part must become preconditions / goals, every other conjunct must survive as a constraint"""
    pr = Problem("invariant_with_trajectory_" + shape)
    p, q, r, g = (Fluent(n, BoolType()) for n in ("p", "q", "r", "g"))
    pr.add_fluent(p, default_initial_value=True)
    pr.add_fluent(q, default_initial_value=False)
    pr.add_fluent(r, default_initial_value=False)
    pr.add_fluent(g, default_initial_value=False)
    for name, f, v in (("set_g", g, True), ("make_q", q, True), ("drop_q", q, False), ("drop_p", p, False), ("make_r", r, True)):
        a = InstantaneousAction(name)
        a.add_effect(f, v)
        pr.add_action(a)
    pr.add_goal(g)
    parts = {"always+sometime": [Always(p), Sometime(q)], "sometime+always": [Sometime(q), Always(p)],
             "always+at_most_once": [Always(p), AtMostOnce(q)], "always+sometime_after": [Always(p), SometimeAfter(q, r)],
             "always+sometime+sometime": [Always(p), Sometime(q), Sometime(r)], "always+always+sometime": [Always(p), Always(Or(p, q)), Sometime(q)]}[shape]
    pr.add_trajectory_constraint(And(parts))
    return pr


def quantified_timed_goal():
    pr = Problem("quantified_timed_goal")
    L = UserType("Location")
    ls = [Object(f"l{i}", L) for i in range(1, 4)]
    pr.add_objects(ls)
    lit = Fluent("lit", BoolType(), x=L)
    pr.add_fluent(lit, default_initial_value=False)
    v = Variable("v", L)
    sw = DurativeAction("switch", x=L)
    sw.set_fixed_duration(2)
    sw.add_effect(EndTiming(), lit(sw.parameter("x")), True)
    pr.add_action(sw)
    pr.add_timed_goal(ClosedTimeInterval(GlobalStartTiming() + 5, GlobalStartTiming() + 8), Exists(lit(v), v))
    pr.add_timed_effect(GlobalStartTiming() + 9, lit(ls[0]), False)
    pr.add_goal(Forall(Or(lit(v), Not(lit(v))), v))
    return pr


def bounded_parametrized():
    """a bounded numeric fluent WITH a parameter (one counter per object) and a bounded 0-ary one: plans can push either outside its range"""
    pr = Problem("bounded_parametrized")
    K = UserType("Tank")
    t1, t2 = Object("t1", K), Object("t2", K)
    pr.add_objects([t1, t2])
    level = Fluent("level", IntType(0, 2), t=K)
    total = Fluent("total", IntType(0, 3))
    done = Fluent("done", BoolType())
    pr.add_fluent(level, default_initial_value=0)
    pr.add_fluent(total, default_initial_value=0)
    pr.add_fluent(done, default_initial_value=False)
    pr.set_initial_value(level(t2), 1)
    fill = InstantaneousAction("fill", t=K)
    fill.add_increase_effect(level(fill.parameter("t")), 1)
    fill.add_increase_effect(total, 1)
    drain = InstantaneousAction("drain", t=K)
    drain.add_decrease_effect(level(drain.parameter("t")), 1)
    finish = InstantaneousAction("finish")
    finish.add_effect(done, True)
    for a in (fill, drain, finish):
        pr.add_action(a)
    pr.add_goal(done)
    return pr


def half_bounded_types():
    """numeric fluents whose type has ONE bound only (lower or upper, int and real), with actions that can push each past its bound"""
    from unified_planning.shortcuts import RealType
    pr = Problem("half_bounded_types")
    lo, hi, rl, done = Fluent("lo", IntType(0, None)), Fluent("hi", IntType(None, 5)), Fluent("rl", RealType(Fraction(0), None)), Fluent("done", BoolType())
    pr.add_fluent(lo, default_initial_value=1)
    pr.add_fluent(hi, default_initial_value=4)
    pr.add_fluent(rl, default_initial_value=Fraction(1, 2))
    pr.add_fluent(done, default_initial_value=False)
    for nm, f, inc, amount in (("lo_down", lo, False, 1), ("hi_up", hi, True, 1), ("rl_down", rl, False, Fraction(1, 2)), ("lo_up", lo, True, 1)):
        a = InstantaneousAction(nm)
        (a.add_increase_effect if inc else a.add_decrease_effect)(f, amount)
        pr.add_action(a)
    fin = InstantaneousAction("finish")
    fin.add_effect(done, True)
    pr.add_action(fin)
    pr.add_goal(done)
    return pr


def undefined_read_in_effect_condition():
    """a numeric fluent WITHOUT initial value read only in the condition of an effect on another (defined) fluent, in the value of an effect on
    another fluent, and in a precondition -- one action each, all applicable only after the fluent has been assigned"""
    pr = Problem("undefined_read_in_effect_condition")
    x, y, flag, done = Fluent("x", IntType()), Fluent("y", IntType(0, 9)), Fluent("flag", BoolType()), Fluent("done", BoolType())
    pr.add_fluent(x)                                    # no initial value
    pr.add_fluent(y, default_initial_value=0)
    pr.add_fluent(flag, default_initial_value=False)
    pr.add_fluent(done, default_initial_value=False)
    probe = InstantaneousAction("probe")
    probe.add_effect(flag, True, GE(x, 1))
    probe.add_effect(done, True)
    copy = InstantaneousAction("copy")
    copy.add_effect(y, x)
    copy.add_effect(done, True)
    need = InstantaneousAction("need")
    need.add_precondition(GE(x, 0))
    need.add_effect(done, True)
    set_x = InstantaneousAction("set_x")
    set_x.add_effect(x, 2)
    for a in (probe, copy, need, set_x):
        pr.add_action(a)
    pr.add_goal(done)
    return pr


def conditional_definition(flag0):
    """a numeric fluent WITHOUT initial value assigned only by a CONDITIONAL effect and read by a later action: the fluent is defined after the
    assigning action only if the effect's condition held"""
    pr = Problem(f"conditional_definition_{flag0}")
    x, flag, done = Fluent("x", IntType()), Fluent("flag", BoolType()), Fluent("done", BoolType())
    pr.add_fluent(x)                                    # no initial value
    pr.add_fluent(flag, default_initial_value=flag0)
    pr.add_fluent(done, default_initial_value=False)
    cond_set = InstantaneousAction("cond_set")
    cond_set.add_effect(x, 2, flag)
    set_flag = InstantaneousAction("set_flag")
    set_flag.add_effect(flag, True)
    need = InstantaneousAction("need")
    need.add_precondition(GE(x, 0))
    need.add_effect(done, True)
    for a in (cond_set, set_flag, need):
        pr.add_action(a)
    pr.add_goal(done)
    return pr


def crafted_cases():
    out = [("crafted:undefined_read_in_effect_condition", (CK.UNDEFINED_INITIAL_NUMERIC_REMOVING,), undefined_read_in_effect_condition()),
           ("crafted:conditional_definition", (CK.UNDEFINED_INITIAL_NUMERIC_REMOVING,), conditional_definition(False)),
           ("crafted:conditional_definition", (CK.UNDEFINED_INITIAL_NUMERIC_REMOVING,), conditional_definition(True)),
           ("crafted:half_bounded_types", (CK.BOUNDED_TYPES_REMOVING,), half_bounded_types()),
           ("crafted:half_bounded_types+grounding", (CK.BOUNDED_TYPES_REMOVING, CK.GROUNDING), half_bounded_types()),
           ("crafted:bounded_parametrized", (CK.BOUNDED_TYPES_REMOVING,), bounded_parametrized()),
           ("crafted:bounded_parametrized+grounding", (CK.BOUNDED_TYPES_REMOVING, CK.GROUNDING), bounded_parametrized()),
           ("crafted:static_default_true", (CK.GROUNDING,), static_default_true()),
           ("crafted:separator_names", (CK.GROUNDING,), separator_names()),
           ("crafted:quantified_timed_goal", (CK.QUANTIFIERS_REMOVING,), quantified_timed_goal())]
    for order in (("tick", "tick_0", "tick_1"), ("tick_1", "tick", "tick_0"), ("tick_0", "tick_1", "tick")):
        out.append(("crafted:colliding_names", (CK.CONDITIONAL_EFFECTS_REMOVING,), colliding_names(order)))
        out.append(("crafted:colliding_names+grounding", (CK.CONDITIONAL_EFFECTS_REMOVING, CK.GROUNDING), colliding_names(order)))
    for order in (("tick", "tick_0", "tick_1", "tick_0_0"), ("tick_0_0", "tick_1", "tick_0", "tick"), ("tick_0", "tick", "tick_0_0", "tick_1")):
        out.append(("crafted:colliding_names_disjunctive", (CK.DISJUNCTIVE_CONDITIONS_REMOVING,), colliding_names_disjunctive(order)))
        out.append(("crafted:colliding_names_disjunctive+grounding", (CK.DISJUNCTIVE_CONDITIONS_REMOVING, CK.GROUNDING), colliding_names_disjunctive(order)))
    for vn in ("pos_loc", "pos_Loc", "pos_loc_0"):
        for m in (True, False):
            out.append(("crafted:quantified_variable_named_like_fresh", (CK.USERTYPE_FLUENTS_REMOVING,), quantified_variable_named_like_fresh(vn, m)))
    for names in (("a", "not_a", "a_0"), ("a", "a_0", "not_a"), ("a_0", "not_a", "a"), ("a", "not_a", "not_a_0"), ("not_a", "a")):
        out.append(("crafted:colliding_negation_names", (CK.NEGATIVE_CONDITIONS_REMOVING,), colliding_negation_names(names)))
    for site in ("precondition", "effect_condition", "goal"):
        out.append(("crafted:existential_over_subtype", (CK.QUANTIFIERS_REMOVING,), existential_over_subtype_equated_to_supertype_term(site)))
    out.append(("crafted:existential_over_subtype+grounding", (CK.GROUNDING,), existential_over_subtype_equated_to_supertype_term("precondition")))
    for site in ("precondition", "effect_condition", "goal"):
        out.append(("crafted:nested_quantifiers", (CK.QUANTIFIERS_REMOVING,), nested_quantifiers(site)))
    out.append(("crafted:nested_quantifiers+grounding", (CK.QUANTIFIERS_REMOVING, CK.GROUNDING), nested_quantifiers("precondition")))
    for src0 in (True, False):
        for goal in ("neg", "pos"):
            out.append(("crafted:boolean_copy_assignment", (CK.NEGATIVE_CONDITIONS_REMOVING,), boolean_copy_assignment(src0, goal)))
    for which in ("a", "b", "c"):
        for goal in ("both", "sound", "complete"):
            out.append(("crafted:disjunctive_effect_condition", (CK.DISJUNCTIVE_CONDITIONS_REMOVING,), disjunctive_effect_condition(which, goal)))
    out.append(("crafted:disjunctive_effect_condition+grounding", (CK.DISJUNCTIVE_CONDITIONS_REMOVING, CK.GROUNDING), disjunctive_effect_condition("a")))
    for same in (True, False):
        out.append(("crafted:repeated_conditional_assignment", (CK.CONDITIONAL_EFFECTS_REMOVING,), repeated_conditional_assignment(same)))
        out.append(("crafted:repeated_conditional_assignment+grounding", (CK.CONDITIONAL_EFFECTS_REMOVING, CK.GROUNDING), repeated_conditional_assignment(same)))
    for k in ("always", "sometime", "at_most_once", "sometime_before", "sometime_after"):
        out.append(("crafted:trajectory_" + k, (CK.TRAJECTORY_CONSTRAINTS_REMOVING,), trajectory(k)))
    for k in ("sometime", "at_most_once", "sometime_before", "sometime_after"):      # every initial combination of the two constrained fluents
        for p0 in (False, True):
            for q0 in (False, True):
                out.append((f"crafted:trajectory_{k}_init", (CK.TRAJECTORY_CONSTRAINTS_REMOVING,), trajectory(k, p0, q0)))
    for k in ("always+sometime", "sometime+always", "always+at_most_once", "always+sometime_after", "always+sometime+sometime", "always+always+sometime"):
        out.append(("crafted:invariant_with_trajectory_" + k, (CK.STATE_INVARIANTS_REMOVING,), invariant_with_trajectory(k)))
    return out

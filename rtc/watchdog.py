"""Wall-clock guard for calls into the code under test: a change to /repo can make a library loop spin forever; a check must
report that, not hang.  `with limit(seconds, what):` raises NonTerminating inside the guarded python code when the budget is
exhausted (SIGALRM / ITIMER_REAL; nestable: the enclosing budget is restored, less the time spent)."""
import signal
import time
from contextlib import contextmanager


class NonTerminating(Exception):
    pass


_stack = []


def _handler(signum, frame):
    now = time.time()
    # the innermost guard whose deadline has passed is the one that fires
    for what, deadline in reversed(_stack):
        if now >= deadline:
            raise NonTerminating(what)
    if _stack:
        signal.setitimer(signal.ITIMER_REAL, max(0.01, min(d for _, d in _stack) - now))


@contextmanager
def limit(seconds, what="call"):
    try:
        old = signal.signal(signal.SIGALRM, _handler)
    except ValueError:      # not in the main thread: no guard possible
        yield
        return
    _stack.append((what, time.time() + seconds))
    signal.setitimer(signal.ITIMER_REAL, max(0.01, min(d for _, d in _stack) - time.time()))
    try:
        yield
    finally:
        _stack.pop()
        if _stack:
            signal.setitimer(signal.ITIMER_REAL, max(0.01, min(d for _, d in _stack) - time.time()))
        else:
            signal.setitimer(signal.ITIMER_REAL, 0)
            signal.signal(signal.SIGALRM, old if old is not None else signal.SIG_DFL)

"""Seeded generator of small temporal problems and time-triggered plans (bounded layer of C05/C26/C28/C29)."""
import random
from fractions import Fraction
from unified_planning.shortcuts import (Problem, Fluent, DurativeAction, InstantaneousAction, UserType, Object, BoolType,
                                        IntType, StartTiming, EndTiming, GlobalStartTiming, ClosedTimeInterval,
                                        OpenTimeInterval, LeftOpenTimeInterval, RightOpenTimeInterval, TimePointInterval,
                                        ClosedDurationInterval, OpenDurationInterval, LeftOpenDurationInterval,
                                        RightOpenDurationInterval, FixedDuration, Not, And, Or, LE, LT, Equals, Int, Plus, TRUE)


class TGen:
    def __init__(self, seed, fixed_durations=False, timed=True, simple=False):
        self.rng = random.Random(seed)
        self.fixed = fixed_durations
        self.timed = timed
        self.simple = simple      # no intermediate effects, no conditional effects

    def p(self, x):
        return self.rng.random() < x

    def problem(self, name="t"):
        rng = self.rng
        pr = Problem(name)
        T = UserType("T")
        objs = [Object("o0", T), Object("o1", T)]
        pr.add_objects(objs)
        p = Fluent("p", BoolType(), x=T)
        q = Fluent("q", BoolType())
        r = Fluent("r", BoolType())
        n = Fluent("n", IntType(0, 4))
        pr.add_fluent(p, default_initial_value=self.p(0.3))
        pr.add_fluent(q, default_initial_value=self.p(0.5))
        pr.add_fluent(r, default_initial_value=False)
        pr.add_fluent(n, default_initial_value=rng.randint(0, 2))
        self.fl = dict(p=p, q=q, r=r, n=n)
        self.objs = objs
        for i in range(rng.randint(1, 2)):
            a = DurativeAction(f"d{i}", x=T) if self.p(0.6) else DurativeAction(f"d{i}")
            scope = list(a.parameters)
            lo, hi = rng.randint(1, 2), rng.randint(2, 4)
            if self.fixed or self.p(0.3):
                a.set_fixed_duration(lo)
            else:
                mk = rng.choice([ClosedDurationInterval, OpenDurationInterval, LeftOpenDurationInterval, RightOpenDurationInterval])
                lo_e = Plus(n(), Int(1)) if self.p(0.2) else Int(lo)
                a.set_duration_constraint(mk(lo_e, Int(max(hi, lo + 1) + 1)))
            for _ in range(rng.randint(0, 2)):
                c = self.lit(scope)
                k = rng.random()
                if k < 0.3:
                    a.add_condition(StartTiming(), c)
                elif k < 0.45:
                    a.add_condition(EndTiming(), c)
                else:
                    mk = rng.choice([ClosedTimeInterval, OpenTimeInterval, LeftOpenTimeInterval, RightOpenTimeInterval])
                    a.add_condition(mk(StartTiming(), EndTiming()), c)
            for _ in range(rng.randint(1, 3)):
                t = rng.choice([StartTiming(), EndTiming(), EndTiming(), StartTiming() + 1 if not (self.fixed or self.simple) else StartTiming()])
                self.add_effect(a, t, scope)
            pr.add_action(a)
        if self.p(0.5):
            b = InstantaneousAction("i0", x=T)
            b.add_precondition(self.lit(list(b.parameters)))
            for _ in range(rng.randint(1, 2)):
                self.add_effect(b, None, list(b.parameters))
            pr.add_action(b)
        if self.timed and self.p(0.3):
            try:
                pr.add_timed_effect(GlobalStartTiming() + rng.choice([1, 2, Fraction(3, 2)]), rng.choice([q, r])(), self.p(0.5))
            except Exception:  # noqa
                pass
        if self.timed and self.p(0.2):
            try:
                pr.add_timed_goal(ClosedTimeInterval(GlobalStartTiming() + 1, GlobalStartTiming() + 2), self.lit([]))
            except Exception:  # noqa
                pass
        pr.add_goal(self.lit([]))
        return pr

    def lit(self, scope):
        rng = self.rng
        fl = self.fl
        k = rng.random()
        xs = [s for s in scope] + self.objs
        if k < 0.35:
            e = fl["p"](rng.choice(xs))
        elif k < 0.55:
            e = fl["q"]()
        elif k < 0.7:
            e = fl["r"]()
        else:
            return rng.choice([LE, LT, Equals])(fl["n"](), Int(rng.randint(0, 3)))
        return Not(e) if self.p(0.35) else e

    def add_effect(self, a, timing, scope):
        rng = self.rng
        fl = self.fl
        xs = [s for s in scope] + self.objs
        k = rng.random()
        try:
            if k < 0.4:
                tgt, val = fl["p"](rng.choice(xs)), self.p(0.6)
            elif k < 0.6:
                tgt, val = fl[rng.choice(["q", "r"])](), self.p(0.6)
            elif k < 0.8:
                if timing is None:
                    a.add_increase_effect(fl["n"](), 1)
                else:
                    a.add_increase_effect(timing, fl["n"](), 1)
                return
            else:
                tgt, val = fl["n"](), (Plus(fl["n"](), Int(1)) if self.p(0.3) else rng.randint(0, 3))
            cond = self.lit(scope) if (self.p(0.2) and not self.simple) else TRUE()
            if timing is None:
                a.add_effect(tgt, val, cond)
            else:
                a.add_effect(timing, tgt, val, cond)
        except Exception:  # noqa
            pass

    def plan(self, pr, maxlen=3):
        """list of (start, action, params, duration|None) on a half-unit grid, so that happenings coincide often"""
        from unified_planning.model import DurativeAction
        rng = self.rng
        out = []
        for _ in range(rng.randint(0, maxlen)):
            a = rng.choice(pr.actions)
            ps = tuple(rng.choice(self.objs) for _ in a.parameters)
            s = Fraction(rng.randint(0, 6), 2)
            d = None
            if isinstance(a, DurativeAction):
                d = Fraction(rng.randint(2, 10), 2)
                lo, hi = a.duration.lower, a.duration.upper
                if lo.is_constant() and hi.is_constant() and rng.random() < 0.8:
                    l2, h2 = int(2 * Fraction(lo.constant_value())), int(2 * Fraction(hi.constant_value()))
                    d = Fraction(rng.randint(l2, max(l2, h2)), 2)     # inside or on the border of the interval
            out.append((s, a, ps, d))
        return out

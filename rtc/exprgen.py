"""Random well-typed expressions over a small signature (shared by the expression-walker checks C11-C17)."""
import random
from fractions import Fraction
from unified_planning.shortcuts import (Problem, Fluent, BoolType, IntType, RealType, UserType, Object, Variable, Exists, Forall,
                                        And, Or, Not, Implies, Iff, Equals, LE, LT, Plus, Minus, Times, Div, Int, Real, TRUE, FALSE)
from unified_planning.model import Parameter

BIG = [2 ** 53 + 1, 3 * (2 ** 53 + 1), 10 ** 30 + 7, -(2 ** 60) - 3]


class ExprGen:
    def __init__(self, seed, big=True, bounded_types=False):
        self.rng = random.Random(seed)
        self.big = big
        T_ = UserType("T")
        S_ = UserType("S", T_)
        self.T, self.S = T_, S_
        self.objs = [Object("o0", T_), Object("o1", T_), Object("s0", S_)]
        pr = Problem("exprs")
        pr.add_objects(self.objs)
        self.p, self.q = Fluent("p", BoolType(), x=T_), Fluent("q", BoolType())
        if bounded_types:
            self.x, self.y = Fluent("x", IntType(-2, 5)), Fluent("y", RealType(Fraction(-3, 2), Fraction(7, 2)))
            self.z = Fluent("z", IntType(None, 4))
        else:
            self.x, self.y = Fluent("x", IntType()), Fluent("y", RealType())
            self.z = Fluent("z", IntType())
        self.loc = Fluent("loc", T_, x=T_)
        self.s_ = Fluent("s", IntType())
        for f in (self.p, self.q, self.x, self.y, self.z, self.loc, self.s_):
            pr.add_fluent(f)
        pr.set_initial_value(self.s_, 7)
        self.pr = pr
        self.params = [Parameter("a", T_), Parameter("n", IntType(-3, -1) if bounded_types else IntType())]

    def const(self, real=None):
        rng = self.rng
        k = rng.random()
        if self.big and k < 0.2:
            return Int(rng.choice(BIG))
        if self.big and k < 0.35:
            return Real(Fraction(rng.choice(BIG), rng.choice([1, 3, 7, 2 ** 40 + 1])))
        if k < 0.5:
            return Real(Fraction(rng.randint(-7, 7), rng.choice([2, 3, 5])))
        return Int(rng.randint(-3, 4))

    def num(self, depth, scope=()):
        rng = self.rng
        r = rng.random()
        if depth <= 0 or r < 0.3:
            k = rng.random()
            if k < 0.45:
                return rng.choice([self.x(), self.y(), self.z(), self.s_()])
            return self.const()
        if r < 0.5:
            return Plus(*[self.num(depth - 1, scope) for _ in range(rng.randint(2, 3))])
        if r < 0.65:
            return Minus(self.num(depth - 1, scope), self.num(depth - 1, scope))
        if r < 0.88:
            return Times(*[self.num(depth - 1, scope) for _ in range(rng.randint(2, 3))])
        d = rng.choice([Int(3), Int(-2), Real(Fraction(5, 3)), Int(7)])
        return Div(self.num(depth - 1, scope), d)

    def obj(self, scope=()):
        rng = self.rng
        o = rng.choice(list(self.objs) + list(scope))
        return self.loc(o) if rng.random() < 0.25 else o

    def boolean(self, depth, scope=(), quant=True):
        rng = self.rng
        r = rng.random()
        if depth <= 0 or r < 0.25:
            k = rng.random()
            if k < 0.35:
                return self.p(self.obj(scope))
            if k < 0.5:
                return self.q()
            if k < 0.75:
                return rng.choice([LE, LT, Equals])(self.num(1, scope), self.num(1, scope))
            if k < 0.9:
                return Equals(self.obj(scope), self.obj(scope))
            return rng.choice([TRUE(), FALSE()])
        if r < 0.35:
            return Not(self.boolean(depth - 1, scope, quant))
        if r < 0.5:
            return And(*[self.boolean(depth - 1, scope, quant) for _ in range(rng.randint(2, 3))])
        if r < 0.65:
            return Or(*[self.boolean(depth - 1, scope, quant) for _ in range(rng.randint(2, 3))])
        if r < 0.72:
            return Implies(self.boolean(depth - 1, scope, quant), self.boolean(depth - 1, scope, quant))
        if r < 0.8:
            return Iff(self.boolean(depth - 1, scope, quant), self.boolean(depth - 1, scope, quant))
        if not quant:
            return self.p(self.obj(scope))
        v = Variable(f"v{depth}", self.T)
        body = self.boolean(depth - 1, tuple(scope) + (v,), quant)
        if rng.random() < 0.5:
            body = And(Equals(v, self.obj(tuple(scope) + (v,))), body)
        return (Exists if rng.random() < 0.6 else Forall)(body, v)

    def interp(self, within_types=False):
        rng = self.rng
        vals = {}
        objs = self.objs

        def lookup(f, args):
            key = (f.name, tuple(a.name for a in args))
            if key not in vals:
                t = f.type
                if t.is_bool_type():
                    vals[key] = rng.random() < 0.5
                elif t.is_int_type():
                    if f.name == "s":
                        vals[key] = 7
                    else:
                        lo = t.lower_bound if t.lower_bound is not None else -6
                        hi = t.upper_bound if t.upper_bound is not None else 6
                        vals[key] = rng.choice([lo, hi, rng.randint(lo, hi)]) if within_types else rng.choice([0, 1, -2, 5, 2 ** 53 + 1])
                elif t.is_real_type():
                    lo = t.lower_bound if t.lower_bound is not None else Fraction(-6)
                    hi = t.upper_bound if t.upper_bound is not None else Fraction(6)
                    vals[key] = rng.choice([lo, hi, lo + (hi - lo) * Fraction(rng.randint(0, 12), 12)])
                else:
                    vals[key] = rng.choice(objs)
            return vals[key]
        return lookup

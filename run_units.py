import sys, json, importlib; sys.path.insert(0,'/verif')
from pyvc.verify import run_unit
mod = importlib.import_module('contracts.'+sys.argv[1])
only = sys.argv[2:] 
for u in mod.UNITS:
    if only and u.name not in only: continue
    r = run_unit(u)
    print("==", r['unit'], r['status'], r.get('error',''), 'paths', r['paths'], r.get('outcomes'), 'wall', r.get('wall_s'))
    if r.get('traceback'): print(r['traceback'])
    for o in r['obligations']:
        if o['verdict']!='discharged':
            print("  ", o['verdict'], o['label'], '|', o['path'], o.get('reason',''), o.get('goal','')[:200])
            if 'replay' in o: print("     replay:", o['replay'])
            if 'replay_error' in o: print("     replay_error:", o['replay_error'])
    print("  obligations", len(r['obligations']), "discharged", sum(o['verdict']=='discharged' for o in r['obligations']))

"""Reference sequential semantics (the documented successor semantics of property C01), written
independently of the library's simulator.  States are dicts {(fluent, args): value}; a fluent with no
entry is undefined."""
import itertools
from fractions import Fraction
from .ev import ev, holds, UNDEF, objects_of


class Ambiguous(Exception):
    """the statement does not fix the outcome (e.g. an effect reads an undefined fluent)"""


def ground_fluents(problem):
    out = []
    for f in problem.fluents:
        doms = [objects_of(problem, p.type) for p in f.signature]
        for combo in itertools.product(*doms):
            out.append((f, combo))
    return out


def initial_state(problem):
    st = {}
    em = problem.environment.expression_manager
    for (f, args) in ground_fluents(problem):
        fe = f(*args) if args else f()
        v = problem.initial_value(fe)
        if v is not None:
            st[(f, args)] = v.constant_value() if not v.is_object_exp() else v.object()
    return st


def mk_lookup(state):
    def lookup(f, args):
        return state.get((f, args), UNDEF)
    return lookup


def type_ok(f, v):
    t = f.type
    if t.is_int_type() or t.is_real_type():
        if t.lower_bound is not None and v < t.lower_bound:
            return False
        if t.upper_bound is not None and v > t.upper_bound:
            return False
    return True


def ground_actions(problem):
    out = []
    for a in problem.actions:
        doms = [objects_of(problem, p.type) for p in a.parameters]
        for combo in itertools.product(*doms):
            out.append((a, combo))
    return out


def successor(problem, state, action, params):
    """returns the successor state dict, or None if the action instance is not applicable.
    raises Ambiguous where the statement leaves the outcome open."""
    lookup = mk_lookup(state)
    env = dict(zip(action.parameters, params))
    for c in action.preconditions:
        ok, amb = holds(c, lookup, env, problem)
        if amb:
            raise Ambiguous("precondition decidable lazily despite an undefined fluent")
        if not ok:
            return None
    assigned = {}   # ground fluent -> set of assigned values
    delta = {}      # ground fluent -> accumulated increase
    for eff in action.effects:
        vs = list(eff.forall)
        doms = [objects_of(problem, v.type) for v in vs]
        for combo in itertools.product(*doms):
            env2 = dict(env)
            env2.update(zip(vs, combo))
            if eff.is_conditional():
                c = ev(eff.condition, lookup, env2, problem)
                if c is UNDEF:
                    raise Ambiguous("effect condition reads an undefined fluent")
                if not c:
                    continue
            targs = [ev(a, lookup, env2, problem) for a in eff.fluent.args]
            if any(t is UNDEF for t in targs):
                raise Ambiguous("effect target reads an undefined fluent")
            key = (eff.fluent.fluent(), tuple(targs))
            val = ev(eff.value, lookup, env2, problem)
            if val is UNDEF:
                raise Ambiguous("effect value reads an undefined fluent")
            if eff.is_assignment():
                assigned.setdefault(key, []).append(val)
            elif eff.is_increase():
                delta[key] = delta.get(key, 0) + val
                delta.setdefault(("touched", key), True)
            elif eff.is_decrease():
                delta[key] = delta.get(key, 0) - val
                delta.setdefault(("touched", key), True)
            else:
                raise NotImplementedError
    new = dict(state)
    incdec_keys = [k for k in delta if not (isinstance(k, tuple) and k and k[0] == "touched")]
    for key, vals in assigned.items():
        f = key[0]
        if key in incdec_keys:
            return None                       # assignment and increase/decrease of one fluent conflict
        if f.type.is_bool_type():
            new[key] = any(vals)               # a Boolean fluent assigned both values ends true
        else:
            if any(v != vals[0] for v in vals):
                return None                   # two different values: inapplicable
            new[key] = vals[0]
    for key in incdec_keys:
        cur = state.get(key, UNDEF)
        if cur is UNDEF:
            raise Ambiguous("increase of an undefined fluent")
        new[key] = cur + delta[key]
    # bounded numeric types and state invariants must hold in the successor
    for key, v in new.items():
        if not type_ok(key[0], v):
            return None
    lk2 = mk_lookup(new)
    for inv in problem.state_invariants:
        ok, amb = holds(inv, lk2, {}, problem)
        if amb:
            raise Ambiguous("invariant decidable lazily despite an undefined fluent")
        if not ok:
            return None
    return new


def initial_ok(problem, state):
    for key, v in state.items():
        if not type_ok(key[0], v):
            return False
    for key in ground_fluents(problem):
        t = key[0].type
        if (t.is_int_type() or t.is_real_type()) and (t.lower_bound is not None or t.upper_bound is not None) \
                and key not in state:
            return False    # a bound on an undefined value is a condition that is never satisfied
    lk = mk_lookup(state)
    for inv in problem.state_invariants:
        ok, amb = holds(inv, lk, {}, problem)
        if not ok or amb:
            return False
    return True


def is_goal(problem, state):
    lk = mk_lookup(state)
    for g in problem.goals:
        ok, amb = holds(g, lk, {}, problem)
        if amb:
            raise Ambiguous("goal decidable lazily despite an undefined fluent")
        if not ok:
            return False
    return True


def freeze(state):
    return frozenset((f.name, tuple(getattr(a, "name", a) for a in args), getattr(v, "name", v))
                     for (f, args), v in state.items())

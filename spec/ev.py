"""Reference semantics of unified-planning expressions over real FNode objects (written from the
documented meaning of each operator, independent of the library's Simplifier/StateEvaluator)."""
from fractions import Fraction
import itertools
from unified_planning.model.operators import OperatorKind as OK


class _Undef:
    def __repr__(self):
        return "UNDEF"


UNDEF = _Undef()


def objects_of(problem, t):
    return list(problem.objects(t))


def ev(e, lookup, env, problem, kleene=False):
    """value of expression e.
    lookup(fluent, args_tuple_of_values) -> value | UNDEF ; env: dict Variable/Parameter -> value.
    strict (default): any undefined sub-expression makes the result UNDEF.
    kleene=True: three-valued short-circuit (used only to detect ambiguous cases)."""
    k = e.node_type
    rec = lambda x: ev(x, lookup, env, problem, kleene)
    if k == OK.BOOL_CONSTANT or k == OK.INT_CONSTANT or k == OK.REAL_CONSTANT:
        return e.constant_value()
    if k == OK.OBJECT_EXP:
        return e.object()
    if k == OK.PARAM_EXP:
        return env[e.parameter()]
    if k == OK.VARIABLE_EXP:
        return env[e.variable()]
    if k == OK.FLUENT_EXP:
        args = [rec(a) for a in e.args]
        if any(a is UNDEF for a in args):
            return UNDEF
        return lookup(e.fluent(), tuple(args))
    if k in (OK.AND, OK.OR):
        vals = [rec(a) for a in e.args]
        absorbing = (k == OK.OR)
        if kleene and any(v is absorbing for v in vals if v is not UNDEF):
            return absorbing
        if any(v is UNDEF for v in vals):
            return UNDEF
        return all(vals) if k == OK.AND else any(vals)
    if k == OK.NOT:
        v = rec(e.arg(0))
        return UNDEF if v is UNDEF else (not v)
    if k == OK.IMPLIES:
        a, b = rec(e.arg(0)), rec(e.arg(1))
        if kleene and (a is False or b is True):
            return True
        if a is UNDEF or b is UNDEF:
            return UNDEF
        return (not a) or b
    if k == OK.IFF:
        a, b = rec(e.arg(0)), rec(e.arg(1))
        if a is UNDEF or b is UNDEF:
            return UNDEF
        return a == b
    if k in (OK.EXISTS, OK.FORALL):
        vs = e.variables()
        doms = [objects_of(problem, v.type) for v in vs]
        vals = []
        for combo in itertools.product(*doms):
            env2 = dict(env)
            env2.update(zip(vs, combo))
            vals.append(ev(e.arg(0), lookup, env2, problem, kleene))
        absorbing = (k == OK.EXISTS)
        if kleene and any(v is absorbing for v in vals if v is not UNDEF):
            return absorbing
        if any(v is UNDEF for v in vals):
            return UNDEF
        return any(vals) if k == OK.EXISTS else all(vals)
    if k in (OK.PLUS, OK.TIMES):
        vals = [rec(a) for a in e.args]
        if any(v is UNDEF for v in vals):
            return UNDEF
        r = 0 if k == OK.PLUS else 1
        for v in vals:
            r = r + v if k == OK.PLUS else r * v
        return r
    if k in (OK.MINUS, OK.DIV, OK.LE, OK.LT, OK.EQUALS):
        a, b = rec(e.arg(0)), rec(e.arg(1))
        if a is UNDEF or b is UNDEF:
            return UNDEF
        if k == OK.MINUS:
            return a - b
        if k == OK.DIV:
            return Fraction(a) / Fraction(b)
        if k == OK.LE:
            return a <= b
        if k == OK.LT:
            return a < b
        return a == b
    if k == OK.INTERPRETED_FUNCTION_EXP:
        args = [rec(a) for a in e.args]
        if any(a is UNDEF for a in args):
            return UNDEF
        return e.interpreted_function().function(*args)
    raise NotImplementedError(f"reference semantics: operator {k}")


def holds(e, lookup, env, problem):
    """(satisfied, ambiguous): a condition reading an undefined fluent is never satisfied; the case where
    lazy evaluation could decide it without reading the undefined fluent is reported as ambiguous"""
    v = ev(e, lookup, env, problem)
    if v is UNDEF:
        kv = ev(e, lookup, env, problem, kleene=True)
        return False, (kv is True)
    return bool(v), False

"""PDDL3 trajectory-constraint semantics over a finite state sequence (reference for C06/C07)."""
from .ev import ev, holds, UNDEF, objects_of
from . import seqsem
from unified_planning.model.operators import OperatorKind as OK
import itertools


class Ambiguous(Exception):
    pass


def holds_all(problem, trace):
    for tc in problem.trajectory_constraints:
        if not tc_holds(problem, tc, trace, {}):
            return False
    return True


def _b(problem, e, st, env):
    ok, amb = holds(e, seqsem.mk_lookup(st), env, problem)
    if amb:
        raise Ambiguous("lazily decidable")
    return ok


def tc_holds(problem, e, trace, env):
    k = e.node_type
    if k == OK.AND:
        return all(tc_holds(problem, a, trace, env) for a in e.args)
    if k == OK.FORALL:
        vs = e.variables()
        for combo in itertools.product(*[objects_of(problem, v.type) for v in vs]):
            env2 = dict(env)
            env2.update(zip(vs, combo))
            if not tc_holds(problem, e.arg(0), trace, env2):
                return False
        return True
    if k == OK.ALWAYS:
        return all(_b(problem, e.arg(0), st, env) for st in trace)
    if k == OK.SOMETIME:
        return any(_b(problem, e.arg(0), st, env) for st in trace)
    if k == OK.AT_MOST_ONCE:
        # phi may become true at most once: once it stops holding it never holds again
        vals = [_b(problem, e.arg(0), st, env) for st in trace]
        runs = sum(1 for i, v in enumerate(vals) if v and (i == 0 or not vals[i - 1]))
        return runs <= 1
    if k == OK.SOMETIME_BEFORE:
        # (sometime-before phi psi): whenever phi holds, psi held strictly before
        phi, psi = e.arg(0), e.arg(1)
        for i, st in enumerate(trace):
            if _b(problem, phi, st, env):
                if not any(_b(problem, psi, trace[j], env) for j in range(i)):
                    return False
        return True
    if k == OK.SOMETIME_AFTER:
        # (sometime-after phi psi): whenever phi holds, psi holds then or later
        phi, psi = e.arg(0), e.arg(1)
        for i, st in enumerate(trace):
            if _b(problem, phi, st, env):
                if not any(_b(problem, psi, trace[j], env) for j in range(i, len(trace))):
                    return False
        return True
    if k == OK.BOOL_CONSTANT:
        return e.bool_constant_value()
    # a plain state formula as trajectory constraint is read as holding in the final state? not generated
    raise Ambiguous(f"unsupported trajectory constraint {k}")

"""Reference happening-based temporal semantics (property C05), independent of the library's validator.

A plan is a list of (start, action, params, duration|None).  Validity:
  * every durative action's duration lies in its (possibly open) duration interval (bounds evaluated in the
    state in effect at the start instant, before the effects of that instant);
  * every condition holds at every instant of its (possibly open) interval, evaluated in the state *before*
    the effects of that instant;
  * all effects scheduled at one instant are evaluated in the state before the instant and applied together;
    two assignments of different values, or an assignment together with an increase/decrease, conflict;
  * timed effects / timed goals / state invariants / bounded types are honoured; the final state satisfies
    the goals.
"""
from fractions import Fraction
import itertools
from .ev import ev, holds, UNDEF, objects_of
from . import seqsem


class Ambiguous(Exception):
    pass


def resolve(timing, start, dur):
    d = Fraction(timing.delay)
    if timing.is_from_start():
        base = Fraction(0) if timing.is_global() else start
        return base + d
    if timing.is_global():
        return None            # global end: not used by the generator
    return start + dur + d


def valid(problem, plan):
    """returns (bool, reason)"""
    from unified_planning.model import DurativeAction, InstantaneousAction
    events = {}      # time -> list of (effect, env, owner index)
    conds = []       # (lo, hi, left_open, right_open, expr, env)
    durchecks = []   # (start, action, env, dur)
    for idx, (s, a, ps, d) in enumerate(plan):
        env = dict(zip(a.parameters, ps))
        s = Fraction(s)
        if isinstance(a, DurativeAction):
            d = Fraction(d)
            durchecks.append((s, a, env, d))
            for timing, effs in a.effects.items():
                t = resolve(timing, s, d)
                for e in effs:
                    events.setdefault(t, []).append((e, env, idx))
            for interval, cs in a.conditions.items():
                lo = resolve(interval.lower, s, d)
                hi = resolve(interval.upper, s, d)
                for c in cs:
                    conds.append((lo, hi, interval.is_left_open(), interval.is_right_open(), c, env))
        else:
            for e in a.effects:
                events.setdefault(s, []).append((e, env, idx))
            for c in a.preconditions:
                conds.append((s, s, False, False, c, env))
    for timing, effs in problem.timed_effects.items():
        t = resolve(timing, Fraction(0), None)
        for e in effs:
            events.setdefault(t, []).append((e, {}, -1))
    for interval, gs in problem.timed_goals.items():
        lo = resolve(interval.lower, Fraction(0), None)
        hi = resolve(interval.upper, Fraction(0), None)
        for g in gs:
            conds.append((lo, hi, interval.is_left_open(), interval.is_right_open(), g, {}))
    times = sorted(events)
    if any(t < 0 for t in times):
        raise Ambiguous("happening before time 0")
    # states[i] = state in effect after the happenings times[:i]
    st = seqsem.initial_state(problem)
    if not seqsem.initial_ok(problem, st):
        raise Ambiguous("illegal initial state")
    states = [st]
    for t in times:
        nxt = apply_together(problem, states[-1], events[t])
        if nxt is None:
            return False, f"conflicting or inapplicable effects at {t}"
        if not legal(problem, nxt):
            return False, f"bounds/invariants violated after {t}"
        states.append(nxt)

    def state_before(t):
        i = 0
        while i < len(times) and times[i] < t:
            i += 1
        return states[i]

    for (s, a, env, d) in durchecks:
        lk = seqsem.mk_lookup(state_before(s))
        lo = ev(a.duration.lower, lk, env, problem)
        hi = ev(a.duration.upper, lk, env, problem)
        if lo is UNDEF or hi is UNDEF:
            return False, "duration bound undefined"
        if d < lo or d > hi or (a.duration.is_left_open() and d == lo) or (a.duration.is_right_open() and d == hi):
            return False, f"duration {d} outside its interval"
    for (lo, hi, lop, rop, c, env) in conds:
        for t in instants(lo, hi, lop, rop, times):
            ok, amb = holds(c, seqsem.mk_lookup(state_before(t)), env, problem)
            if amb:
                raise Ambiguous("condition lazily decidable")
            if not ok:
                return False, f"condition {c} false at {t}"
    try:
        if not seqsem.is_goal(problem, states[-1]):
            return False, "goals not satisfied"
    except seqsem.Ambiguous as e:
        raise Ambiguous(str(e))
    return True, ""


def instants(lo, hi, lop, rop, times):
    """representative instants of the interval: its closed ends, the happenings inside it, and a point between
    any two consecutive candidates (states are constant between happenings)"""
    if lo > hi:
        return []
    pts = sorted({lo, hi} | {t for t in times if lo <= t <= hi})
    out = set()
    for a, b in zip(pts, pts[1:]):
        out.add((a + b) / 2)
    for p in pts:
        if (p == lo and lop) or (p == hi and rop):
            continue
        out.add(p)
    return sorted(out)


def legal(problem, st):
    for key, v in st.items():
        if not seqsem.type_ok(key[0], v):
            return False
    lk = seqsem.mk_lookup(st)
    for inv in problem.state_invariants:
        ok, amb = holds(inv, lk, {}, problem)
        if amb:
            raise Ambiguous("invariant lazily decidable")
        if not ok:
            return False
    return True


def apply_together(problem, state, effs):
    lookup = seqsem.mk_lookup(state)
    assigned, delta, owners = {}, {}, {}
    for (eff, env, owner) in effs:
        vs = list(eff.forall)
        doms = [objects_of(problem, v.type) for v in vs]
        for combo in itertools.product(*doms):
            env2 = dict(env)
            env2.update(zip(vs, combo))
            if eff.is_conditional():
                c = ev(eff.condition, lookup, env2, problem)
                if c is UNDEF:
                    raise Ambiguous("effect condition undefined")
                if not c:
                    continue
            targs = [ev(a, lookup, env2, problem) for a in eff.fluent.args]
            val = ev(eff.value, lookup, env2, problem)
            if val is UNDEF or any(t is UNDEF for t in targs):
                raise Ambiguous("effect reads an undefined fluent")
            key = (eff.fluent.fluent(), tuple(targs))
            if eff.is_assignment():
                assigned.setdefault(key, []).append(val)
                owners.setdefault(key, set()).add(owner)
            elif eff.is_increase():
                delta[key] = delta.get(key, 0) + val
            elif eff.is_decrease():
                delta[key] = delta.get(key, 0) - val
            else:
                raise Ambiguous("continuous effect")
    new = dict(state)
    for key, vals in assigned.items():
        if key in delta:
            return None
        distinct = any(v != vals[0] for v in vals)
        if len(owners[key]) > 1 and not distinct:
            raise Ambiguous("two different actions assign one value to one fluent at the same instant")
        if key[0].type.is_bool_type() and len(owners[key]) == 1:
            new[key] = any(vals)
        elif distinct:
            return None
        else:
            new[key] = vals[0]
    for key, dv in delta.items():
        cur = state.get(key, UNDEF)
        if cur is UNDEF:
            raise Ambiguous("increase of undefined")
        new[key] = cur + dv
    return new

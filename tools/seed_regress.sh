#!/bin/sh
# tools/seed_regress.sh [jobs] : every seeded change against its property's check, on scratch copies of /repo's tree, in parallel.
# Prints one line per seed: CAUGHT (check exit 1 with a VIOLATION line), UNDECIDED (exit 2), MISSED (exit 0), other.
J=${1:-4}
cd /verif
ls seeded | xargs -P $J -I{} sh -c '
  n={}; p=${n%-*}
  out=$(timeout 2400 tools/seed_try_copy.sh $p $n 2>&1 | tr "\n" " ")
  case "$out" in
    *"exit=1 "[1-9]*" violation"*) v=CAUGHT;;
    *"(copy): exit=2"*) v=UNDECIDED;;
    *"(copy): exit=0"*) v=MISSED;;
    *) v=OTHER;;
  esac
  echo "$n $v | $out"'

#!/bin/sh
# tools/seed_try.sh <ID> <seed-dir-name> [check ids...]   : applies seeded/<name>/patch.diff to /repo, runs the demo and the
# checks, undoes the change.  Prints one summary line per step.
ID=$1; NAME=$2; shift 2
CHECKS=${*:-$ID}
D=/verif/seeded/$NAME
cd /repo || exit 3
[ -z "$(git status --porcelain)" ] || { echo "repo not clean"; exit 3; }
git apply "$D/patch.diff" || { echo "patch does not apply"; exit 3; }
DEMO=$(ls $D/demo_*.py | head -1)
( cd /tmp && PYTHONPATH=/repo /venv/bin/python "$DEMO" >/tmp/seed_demo_with.log 2>&1 ); echo "demo with change: exit=$?"
for c in $CHECKS; do
  ( cd /verif && ./check $c > /tmp/seed_check_$c.log 2>&1 ); echo "check $c with change: exit=$? $(grep -c '^VIOLATION' /tmp/seed_check_$c.log) violation line(s)"
done
git checkout -- . ; git status --porcelain | grep -v '^??' 
( cd /tmp && PYTHONPATH=/repo /venv/bin/python "$DEMO" >/tmp/seed_demo_without.log 2>&1 ); echo "demo without change: exit=$?"

#!/bin/sh
# tools/seed_try_copy.sh <ID> <seed-dir-name> [check ids...] : preliminary try of a seeded change on a scratch COPY of /repo's working tree
# (used while /repo is busy with a long check run; the confirming run is tools/seed_try.sh on /repo itself).  The copy is removed afterwards.
ID=$1; NAME=$2; shift 2
CHECKS=${*:-$ID}
D=/verif/seeded/$NAME
C=/tmp/rc_$NAME
rm -rf $C; mkdir -p $C
( cd /repo && git ls-files -z | xargs -0 cp --parents -t $C )
( cd $C && patch -p1 -s < $D/patch.diff ) || { echo "patch does not apply"; rm -rf $C; exit 3; }
DEMO=$(ls $D/demo_*.py | head -1)
( cd /tmp && PYTHONPATH=$C /venv/bin/python "$DEMO" >/tmp/seedc_demo_$NAME.log 2>&1 ); echo "demo with change: exit=$?"
for c in $CHECKS; do
  ( cd /verif && PYTHONPATH=$C VERIF_EVIDENCE_DIR=/tmp/evc_$NAME ./check $c > /tmp/seedc_check_$NAME.log 2>&1 ); echo "check $c with change (copy): exit=$? $(grep -c '^VIOLATION' /tmp/seedc_check_$NAME.log) violation line(s)"
done
rm -rf $C

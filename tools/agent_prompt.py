import json, sys
pid = sys.argv[1]
suf = sys.argv[2] if len(sys.argv) > 2 else ''
p = [json.loads(l) for l in open('/verif/properties.jsonl') if json.loads(l)['id'] == pid][0]
print(f"""You are helping test a verification effort for the Python library `unified-planning` (modelling AI planning problems). Work ONLY inside the scratch git worktree /tmp/wt_{pid}{suf} (a checkout of the library; the package is `unified_planning/`). Do not read or write anything under /repo or /verif. Use /venv/bin/python (it has the library's dependencies; run things with `cd /tmp/wt_{pid}{suf} && PYTHONPATH=/tmp/wt_{pid}{suf} /venv/bin/python ...` so that YOUR worktree's code is imported, and verify with `python -c "import unified_planning; print(unified_planning.__file__)"` that it resolves to the worktree).

Here is a semantic property the library is supposed to satisfy:

  id: {p['id']}
  title: {p['title']}
  statement: {p['statement']}
  quantifier: {p['quantifier']['text']}
  files involved: {', '.join(p['anchors']['files'])}

Task: produce ONE realistic code change (a plausible bug a maintainer could introduce: a refactoring slip, an optimisation, a reordered statement, a wrong boundary, a forgotten case...) to the library source in your worktree that BREAKS this property, while (a) the code still imports/compiles and (b) the existing test suite still passes:
   cd /tmp/wt_{pid}{suf} && PYTHONPATH=/tmp/wt_{pid}{suf} /venv/bin/python -m pytest -q -p no:cacheprovider --timeout=900 2>&1 | tail -3
(the suite takes ~2-3 minutes on an idle machine, 10-20 when other testers run theirs; it must still report 428 passed). Other testers run the same command in their own worktrees at the same time: NEVER use pkill / killall on pytest or python -- if you must stop your own run, kill it by PID.
The change must need something SPECIFIC to manifest -- an unusual input, a particular multi-step sequence of operations, a corner case, or two cooperating sites that each look fine alone -- not something ordinary use would expose at once. Keep it small (a few lines). Do not touch tests.

Also write a demonstration program /tmp/wt_{pid}{suf}/demo_{pid}.py: a small standalone script that exercises the public API, exits 0 (prints PASS) on the ORIGINAL code and exits 1 (prints FAIL and what went wrong) with your change applied. Verify both: run it with your change (must fail), then save your change with `git diff > /tmp/wt_{pid}{suf}/my_change.patch`, undo it with `git checkout -- unified_planning` (do NOT use `git stash`: the stash is shared between worktrees), run the demo again (must pass), then re-apply with `git apply /tmp/wt_{pid}{suf}/my_change.patch`.

When done, leave the source change UNCOMMITTED in the worktree (so that `git -C /tmp/wt_{pid}{suf} diff` shows exactly the change; the demo file may be untracked) and reply with: the diff, the demo file path, one paragraph on what is needed for the bug to manifest, and the exact outputs you observed for (1) the test suite with the change, (2) demo with change, (3) demo without change.""")

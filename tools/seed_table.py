"""prints a markdown table of all seeded changes from seeded/*/meta.json (used for DESIGN.md)"""
import json, glob, os
rows = []
for d in sorted(glob.glob('/verif/seeded/*')):
    m = json.load(open(os.path.join(d, 'meta.json')))
    c = m.get('caught_by', '')
    first = ('at first run' in c) or ('first run' in c and 'after' not in c.split('first run')[0][-40:])
    how = 'first run' if ('at first run' in c or c.strip().endswith('first run') or 'caught as first run' in c or 'caught at first run' in c) else ('after strengthening' if ('after' in c or 'Missed before' in c) else 'first run')
    layer = 'P' if (' P unit' in c or 'P units' in c or 'proved layer' in c) and 'bounded layer' not in c.split('.')[0] else ('P+B' if ((' P unit' in c or 'P units' in c) and 'bounded' in c) else 'B')
    rows.append((os.path.basename(d), m['property'], how, layer, m.get('needs', '')[:150].replace('|', '/')))
print('| seed | caught | by | needs (abridged) |')
print('|---|---|---|---|')
for n, p, how, layer, needs in rows:
    print(f'| {n} | {how} | {layer} | {needs} |')
print()
print(f'{len(rows)} seeds; first run: {sum(r[2]=="first run" for r in rows)}; after strengthening: {sum(r[2]!="first run" for r in rows)}')

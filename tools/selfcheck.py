#!/usr/bin/env python3
"""Runs every MANIFEST quick (or thorough) command the way the harness does - evidence file removed first - and checks:
exit 0, no VIOLATION line, evidence rewritten, evidence valid against the schema, evidence level == MANIFEST category.
Usage: .venv/bin/python tools/selfcheck.py [quick|thorough] [ID ...]"""
import json, os, subprocess, sys, time
import jsonschema
ROOT = os.path.dirname(os.path.dirname(os.path.abspath(__file__)))
tier = sys.argv[1] if len(sys.argv) > 1 else "quick"
only = set(sys.argv[2:])
m = json.load(open(os.path.join(ROOT, "MANIFEST.json")))
schema = json.load(open("/root/.vp/EVIDENCE.schema.json"))
env = dict(os.environ, VERIF_SEED=os.environ.get("VERIF_SEED", "1"), VERIF_TIER=tier, PIP_NO_INDEX="1")
bad = 0
for c in m["checks"]:
    pid = c["property_id"]
    if only and pid not in only:
        continue
    ev = os.path.join(ROOT, "evidence", pid + ".json")
    if os.path.exists(ev):
        os.remove(ev)
    t = time.time()
    r = subprocess.run(c[tier + "_cmd"], shell=True, cwd=ROOT, env=env, capture_output=True, text=True)
    out = r.stdout + r.stderr
    problems = []
    if r.returncode != 0:
        problems.append(f"exit {r.returncode}")
    if "VIOLATION" in out:
        problems.append("VIOLATION line")
    if not os.path.exists(ev):
        problems.append("evidence not rewritten")
    else:
        e = json.load(open(ev))
        errs = list(jsonschema.Draft202012Validator(schema).iter_errors(e))
        problems += [f"schema: {x.message[:200]}" for x in errs[:3]]
        if e.get("level") != c["level_claimed"]["category"]:
            problems.append(f"evidence level {e.get('level')!r} != MANIFEST category {c['level_claimed']['category']!r}")
        if e.get("tier") != tier or e.get("property_id") != pid:
            problems.append("evidence tier/property mismatch")
    last = [l for l in out.splitlines() if l.startswith(pid + ":")]
    print(f"{pid} {'OK ' if not problems else 'BAD'} {time.time() - t:6.1f}s  {'; '.join(problems)}  {last[-1] if last else ''}", flush=True)
    for l in out.splitlines():
        if l.startswith(("KNOWN-FINDING", "VIOLATION", "UNDECIDED", "CHECKER-CRASH")):
            print("   ", l[:240])
    bad += bool(problems)
sys.exit(1 if bad else 0)

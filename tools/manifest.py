#!/usr/bin/env python3
"""Regenerates /verif/MANIFEST.json from the table below (keeps it schema-valid)."""
import json, os, sys
ROOT = os.path.dirname(os.path.dirname(os.path.abspath(__file__)))
props = [json.loads(l) for l in open(os.path.join(ROOT, "properties.jsonl"))]

# id -> (category, text, note, technique, design_ref)
CLAIMED = json.load(open(os.path.join(ROOT, "tools", "claimed.json")))
NA = json.load(open(os.path.join(ROOT, "tools", "not_applicable.json")))

def module_level(pid):
    """LEVEL of contracts/cNN.py = the `level` the check writes into its evidence file (verif_main.py)."""
    import re
    path = os.path.join(ROOT, "contracts", pid.lower() + ".py")
    m = re.search(r'^LEVEL = "(\w+)"', open(path).read(), re.M) if os.path.exists(path) else None
    return m.group(1) if m else "other"


checks = []
for p in props:
    c = CLAIMED.get(p["id"])
    if not c:
        continue
    if module_level(p["id"]) != c["category"]:
        sys.exit(f"{p['id']}: claimed category {c['category']!r} but contracts/{p['id'].lower()}.py writes evidence level "
                 f"{module_level(p['id'])!r}; make tools/claimed.json and the module agree")
    checks.append({
        "property_id": p["id"],
        "quick_cmd": f"./check {p['id']} --tier quick",
        "thorough_cmd": f"./check {p['id']} --tier thorough",
        "evidence_file": f"/verif/evidence/{p['id']}.json",
        "replay_cmd_template": f"./check {p['id']} --replay {{path}}",
        "engine": "pyvc",
        "level_claimed": {"category": c["category"], "text": c["text"], "design_ref": c.get("design_ref", "DESIGN.md section 7")},
        "level_note": c["note"],
        "technique": c["technique"],
    })
na = [{"property_id": p["id"], "reason": NA.get(p["id"], "check not built yet (see DESIGN.md section 11)")}
      for p in props if p["id"] not in CLAIMED]
m = {
    "version": 1, "setup_cmd": "./setup.sh",
    "hooks": {"guard": "AIPLAN4EU_UNIFIED_PLANNING_VERIF",
              "enable": "no hooks: contracts are sidecar files under /verif/contracts; /repo is read, never patched by the machinery",
              "baseline_off_cmd": "cd /repo && /venv/bin/python -m pytest -ra -q -p no:cacheprovider --timeout=900",
              "source_commits": [], "add_only": True},
    "engines": [{"name": "pyvc", "path": "/verif/pyvc", "serves_properties": sorted(CLAIMED),
                 "kind_free_text": "verification-condition generator: symbolic execution of the ast of the real /repo functions against sidecar contracts, obligations discharged by z3 (cvc5 on unknown); bounded run-time-contract layer labelled bounded"}],
    "checks": checks,
    "notes": "See DESIGN.md. fix: commits in /repo are listed in known_findings.json.",
    "not_applicable": na,
}
json.dump(m, open(os.path.join(ROOT, "MANIFEST.json"), "w"), indent=1)
try:
    import jsonschema
    jsonschema.validate(m, json.load(open("/root/.vp/MANIFEST.schema.json")))
    print("MANIFEST ok:", len(checks), "checks,", len(na), "not applicable")
except ImportError:
    print("written (jsonschema unavailable)")

#!/bin/sh
# tools/seed_save.sh <ID> <worktree-suffix> <seed-name> : copies the uncommitted change and demo of /tmp/wt_<ID><suffix> into seeded/<seed-name>/
ID=$1; SUF=$2; NAME=$3
W=/tmp/wt_$ID$SUF; D=/verif/seeded/$NAME
mkdir -p $D
git -C $W diff -- unified_planning > $D/patch.diff
cp $W/demo_$ID.py $D/demo_$ID.py
grep -n "wt_" $D/demo_$ID.py
wc -l $D/patch.diff

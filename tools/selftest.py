"""Self-test of the proved layer (not a registered check; run by hand or from CI):  tools/selftest.py [mutants|engine|all]

mutants  For every property with functions under contract, one or more deliberate property-breaking edits are applied to a
         scratch COPY of /repo's package (under a fresh temp dir, removed afterwards; /repo is never touched), the
         property's units are run against the copy (PYTHONPATH puts the copy first) and the named unit must report a failed
         obligation.  A mutant that survives means the contract is too weak (or vacuous) for that change.
engine   CPython differential of the pyvc engine: small functions covering the statement / expression subset are executed
         by the engine on concrete arguments and by CPython; return values and exception classes must agree.
"""
import json
import os
import random
import shutil
import subprocess
import sys
import tempfile

ROOT = os.path.dirname(os.path.dirname(os.path.abspath(__file__)))
REPO = "/repo"

# (property, relative file, old text, new text, substring of the unit expected to fail)
MUTANTS = [
    ("C36", "unified_planning/model/state.py", "            if _father is not None or self._is_nondefault(fluent, value):\n", "            if True:\n", "UPState.__init__ [no father]"),
    ("C36", "unified_planning/model/state.py", "            if _father is not None or self._is_nondefault(fluent, value):\n", "            if self._is_nondefault(fluent, value):\n", "UPState.__init__ [with a father]"),
    ("C36", "unified_planning/model/state.py", "            self._ancestors = _father._ancestors + 1\n", "            self._ancestors = _father._ancestors\n", "UPState.__init__ [with a father]"),
    ("C25", "unified_planning/model/delta_stn.py", "        if right_bound is not None:\n            self.add(right_event, left_event, right_bound)", "        if right_bound:\n            self.add(right_event, left_event, right_bound)", "insert_interval"),
    ("C25", "unified_planning/model/delta_stn.py", "            self.add(left_event, right_event, -left_bound)", "            self.add(left_event, right_event, left_bound)", "insert_interval"),
    ("C25", "unified_planning/model/delta_stn.py", "            self.add(right_event, left_event, right_bound)", "            self.add(left_event, right_event, right_bound)", "insert_interval"),
    ("C25", "unified_planning/model/delta_stn.py", "            self._distances.setdefault(right_event, cast(T, 0))", "            self._distances[right_event] = cast(T, 0)", "insert_interval"),
    ("C25", "unified_planning/model/delta_stn.py", "        if left_bound is None and right_bound is None:", "        if left_bound is None or right_bound is None:", "insert_interval"),
    ("C10", "unified_planning/model/problem.py", "        free_vars = self.environment.free_vars_extractor.get(\n            lower\n        ) | self.environment.free_vars_extractor.get(upper)\n", "        free_vars = self.environment.free_vars_extractor.get(upper)\n", "update_action_duration"),
    ("C10", "unified_planning/model/problem.py", "        ops = self.operators_extractor.get(lower) | self.operators_extractor.get(upper)\n", "        ops = self.operators_extractor.get(lower)\n", "update_action_duration"),
    ("C10", "unified_planning/model/problem.py", "        if lower != upper:\n            self.kind.set_time(\"DURATION_INEQUALITIES\")", "        if lower == upper:\n            self.kind.set_time(\"DURATION_INEQUALITIES\")", "update_action_duration"),
    ("C10", "unified_planning/model/problem.py", "            if any(fv.fluent() not in self.static_fluents for fv in free_vars):\n                self.kind.set_expression_duration(\"FLUENTS_IN_DURATIONS\")", "            if all(fv.fluent() not in self.static_fluents for fv in free_vars):\n                self.kind.set_expression_duration(\"FLUENTS_IN_DURATIONS\")", "update_action_duration"),
    ("C10", "unified_planning/model/problem.py", "        for dur_bound in (lower, upper):\n            if dur_bound.type.is_int_type():", "        for dur_bound in (lower,):\n            if dur_bound.type.is_int_type():", "update_action_duration"),
    ("C22", "unified_planning/model/multi_agent/agent.py", "        new_ag._fluents = self._fluents.copy()\n", "        new_ag._fluents = self._fluents\n", "Agent.clone"),
    ("C22", "unified_planning/model/multi_agent/agent.py", "        new_ag._public_goals = self._public_goals.copy()\n", "        new_ag._public_goals = self._private_goals.copy()\n", "Agent.clone"),
    ("C22", "unified_planning/model/multi_agent/agent.py", "            new_ag.add_action(a.clone())\n", "            new_ag.add_action(a)\n", "Agent.clone"),
    ("C22", "unified_planning/model/multi_agent/agent.py", "        if name is None:\n            name = self.name\n        new_ag = Agent(name, ma_problem)", "        new_ag = Agent(self.name, ma_problem)", "Agent.clone[name given]"),
    ("C22", "unified_planning/model/multi_agent/agent.py", "        for a in self.actions:\n            new_ag.add_action(a.clone())\n        return new_ag", "        for a in self.actions[1:]:\n            new_ag.add_action(a.clone())\n        return new_ag", "Agent.clone"),
    ("C22", "unified_planning/model/multi_agent/ma_problem.py", "        new_p._agents = [ag.clone(new_p) for ag in self._agents]\n", "        new_p._agents = [ag.clone(self) for ag in self._agents]\n", "MultiAgentProblem.clone"),
    ("C22", "unified_planning/model/multi_agent/ma_problem.py", "        new_p._objects = self._objects[:]\n        new_p._initial_value", "        new_p._objects = self._objects\n        new_p._initial_value", "MultiAgentProblem.clone"),
    ("C22", "unified_planning/model/multi_agent/ma_problem.py", "        new_p._goals = self._goals[:]\n        new_p._initial_defaults = self._initial_defaults.copy()\n        return new_p", "        new_p._initial_defaults = self._initial_defaults.copy()\n        return new_p", "MultiAgentProblem.clone"),
    ("C22", "unified_planning/model/multi_agent/ma_problem.py", "        new_p.ma_environment._fluents_defaults = (\n            self.ma_environment._fluents_defaults.copy()\n        )", "        new_p.ma_environment._fluents_defaults = (\n            self.ma_environment._fluents_defaults\n        )", "MultiAgentProblem.clone"),
    ("C22", "unified_planning/model/multi_agent/ma_problem.py", "        new_p._agents = [ag.clone(new_p) for ag in self._agents]\n", "        new_p._agents = [ag.clone(new_p) for ag in self._agents[1:]]\n", "MultiAgentProblem.clone"),
    ("C02", "unified_planning/engines/sequential_simulator.py", "            except UPConflictingEffectsException:\n                reason = InapplicabilityReasons.CONFLICTING_EFFECTS\n",
     "            except UPConflictingEffectsException:\n                pass\n", "full_check"),
    ("C02", "unified_planning/engines/sequential_simulator.py", "                if not self._se.evaluate(si, new_partial_state).bool_constant_value():", "                if not self._se.evaluate(si, state).bool_constant_value():", "full_check"),
    ("C02", "unified_planning/engines/sequential_simulator.py", "                    if reason is None:\n                        reason = InapplicabilityReasons.VIOLATES_STATE_INVARIANTS\n",
     "                    if reason is not None:\n                        reason = InapplicabilityReasons.VIOLATES_STATE_INVARIANTS\n", "full_check"),
    ("C02", "unified_planning/engines/sequential_simulator.py", "                unsatisfied_conditions.append(c)\n                reason = InapplicabilityReasons.VIOLATES_CONDITIONS\n",
     "                unsatisfied_conditions.append(c)\n", "full_check"),
    ("C02", "unified_planning/engines/sequential_simulator.py", "        new_state = state.make_child(updated_values)\n        for si in self._state_invariants:\n            if not self._se.evaluate(si, new_state).bool_constant_value():",
     "        new_state = state.make_child(updated_values)\n        for si in self._state_invariants:\n            if not self._se.evaluate(si, state).bool_constant_value():", "apply_unsafe"),
    ("C02", "unified_planning/engines/sequential_simulator.py", "                if fluent is not None:\n                    assert value is not None\n                    updated_values[fluent] = value\n\n        new_state",
     "                if fluent is not None:\n                    assert value is not None\n                    updated_values.setdefault(fluent, value)\n\n        new_state", "apply_unsafe"),
    ("C02", "unified_planning/engines/sequential_simulator.py", "                fluent, value = self._evaluate_effect(\n                    effect, state, updated_values, assigned_fluent, em\n                )\n                if fluent is not None:\n                    assert value is not None\n                    updated_values[fluent] = value\n\n        new_state",
     "                fluent, value = self._evaluate_effect(\n                    effect, state, dict(updated_values), assigned_fluent, em\n                )\n                if fluent is not None:\n                    assert value is not None\n                    updated_values[fluent] = value\n\n        new_state", "apply_unsafe"),
    ("C30", "unified_planning/engines/compilers/ks0_compiler.py", "            return literal.arg(0), True\n", "            return literal.arg(0), False\n", "_literal_parts"),
    ("C30", "unified_planning/engines/compilers/ks0_compiler.py", "        return fluent_exp if is_negative else expression_manager.Not(fluent_exp)\n",
     "        return expression_manager.Not(fluent_exp) if is_negative else fluent_exp\n", "_negate_literal"),
    ("C30", "unified_planning/engines/compilers/ks0_compiler.py", "            value = (index == chosen_index) != is_negative\n", "            value = (index == chosen_index) == is_negative\n", "_assign_oneof_choice[soundness]"),
    ("C30", "unified_planning/engines/compilers/ks0_compiler.py", "            if assignment.setdefault(atom, value) != value:\n                return False\n",
     "            if assignment.setdefault(atom, value) != value:\n                continue\n", "_assign_oneof_choice[soundness]"),
    ("C30", "unified_planning/engines/compilers/ks0_compiler.py", "            if assignment.setdefault(atom, value) != value:\n                return False\n",
     "            if assignment.setdefault(atom, value) != value or index > chosen_index + 1:\n                return False\n", "_assign_oneof_choice[completeness]"),
    ("C30", "unified_planning/engines/compilers/ks0_compiler.py", "        return assignment[atom] != is_negative\n", "        return assignment[atom] == is_negative\n", "_literal_holds"),
    ("C30", "unified_planning/engines/compilers/ks0_compiler.py", "        return ActionInstance(old_action, action_instance.actual_parameters)\n", "        return ActionInstance(old_action)\n", "_map_back_ks0_action_instance"),
    ("C31", "unified_planning/engines/compilers/interpreted_functions_remover.py",
     "            len_start = len(found_fluents_set)\n", "            len_start = len_end\n", "_find_changing_fluents"),
    ("C31", "unified_planning/engines/compilers/interpreted_functions_remover.py",
     "                            if f_e.fluent() in found_fluents_set:\n                                found_fluents_set.add(f)\n",
     "                            if f_e.fluent() in found_fluents_set:\n                                found_fluents_set.add(f_e.fluent())\n", "_find_changing_fluents"),
    ("C31", "unified_planning/engines/compilers/interpreted_functions_remover.py",
     "        while len_end > len_start:\n            len_start = len(found_fluents_set)\n", "        while len_end > len_start + 1:\n            len_start = len(found_fluents_set)\n", "_find_changing_fluents"),
    ("C24", "unified_planning/model/transition.py",
     "        up.model.effect.check_conflicting_effects(\n            effect,\n            None,\n            self._simulated_effect,",
     "        self._effects.append(effect)\n        up.model.effect.check_conflicting_effects(\n            effect,\n            None,\n            self._simulated_effect,", "_add_effect_instance"),
    ("C24", "unified_planning/model/mixins/timed_conds_effs.py",
     "            self._fluents_inc_dec.get(timing, set()),\n", "            set(),\n", "set_simulated_effect"),
    ("C24", "unified_planning/model/problem.py",
     "        self._timed_effects.setdefault(timing, []).append(effect)\n", "        self._timed_effects.setdefault(GlobalStartTiming(), []).append(effect)\n", "Problem._add_effect_instance"),
    ("C14", "unified_planning/model/walkers/substituter.py",
     "        IdentityDagWalker.__init__(self, environment, True)\n", "        IdentityDagWalker.__init__(self, environment)\n", "substitute"),
    ("C14", "unified_planning/model/walkers/quantifier_simplifier.py",
     "        DagWalker.__init__(self, True)\n", "        DagWalker.__init__(self)\n", "earlier calls"),
    ("C14", "unified_planning/model/walkers/expression_quantifiers_remover.py",
     "        IdentityDagWalker.__init__(self, self._env, True)\n", "        IdentityDagWalker.__init__(self, self._env, False)\n", "remove_quantifiers"),
    ("C16", "unified_planning/model/expression.py",
     "        tuple_args = tuple(self.auto_promote(*args))\n\n        if len(tuple_args) == 0:\n            return self.TRUE()",
     "        tuple_args = tuple(self.auto_promote(*args))\n\n        if len(args) == 0:\n            return self.TRUE()", "And/["),
    ("C09", "unified_planning/engines/factory.py",
     "                problem_kind = EngineClass.resulting_problem_kind(\n                    problem_kind, compilation_kind\n                )\n",
     "                EngineClass.resulting_problem_kind(\n                    problem_kind, compilation_kind\n                )\n", "pipeline"),
    ("C09", "unified_planning/engines/factory.py",
     "                compiler.default = compilation_kind\n", "                compiler.default = None\n", "pipeline"),
    ("C09", "unified_planning/engines/factory.py",
     "                compilers.append(compiler)\n", "                compilers.insert(0, compiler)\n", "pipeline"),
    ("C09", "unified_planning/engines/factory.py",
     "        return EngineClass.supports(problem_kind)\n", "        return True\n", "_engine_satisfies_conditions"),
    ("C09", "unified_planning/engines/factory.py",
     "            if compilation_kind is not None and not EngineClass.supports_compilation(\n                compilation_kind\n            ):\n                return False\n        elif operation_mode == OperationMode.ANYTIME_PLANNER:",
     "            if compilation_kind is None and not EngineClass.supports_compilation(\n                compilation_kind\n            ):\n                return False\n        elif operation_mode == OperationMode.ANYTIME_PLANNER:", "_engine_satisfies_conditions"),
    ("C09", "unified_planning/engines/factory.py",
     "            ):\n                return EngineClass\n            elif getattr(EngineClass, \"is_\" + operation_mode.value)():",
     "            ):\n                return self._engines[self._preference_list[0]]\n            elif getattr(EngineClass, \"is_\" + operation_mode.value)():", "_get_engine_class"),
    ("C24", "unified_planning/model/effect.py",
     "            else:\n                fluents_assigned[effect.fluent] = effect.value\n",
     "            fluents_assigned[effect.fluent] = effect.value\n", "check_conflicting_effects"),
    ("C24", "unified_planning/model/effect.py",
     "            if effect.fluent in fluents_assigned:\n                if timing is None:\n                    msg = f\"The effect {effect} is in conflict with the effects already in the {name}.\"",
     "            fluents_inc_dec.add(effect.fluent)\n            if effect.fluent in fluents_assigned:\n                if timing is None:\n                    msg = f\"The effect {effect} is in conflict with the effects already in the {name}.\"",
     "check_conflicting_effects"),
    ("C16", "unified_planning/model/expression.py",
     "                del self.expressions[content]\n", "                pass\n", "create_node"),
    ("C16", "unified_planning/model/expression.py",
     "        return self.create_node(node_type=OperatorKind.LE, args=(right, left))",
     "        return self.create_node(node_type=OperatorKind.LE, args=(left, right))", "GE"),
    ("C16", "unified_planning/model/expression.py",
     "        if expression.is_not():\n            return expression.arg(0)\n", "", "Not"),
    ("C23", "unified_planning/model/mixins/initial_state.py",
     "        if not value_exp.is_constant():", "        if False:", "set_initial_value"),
    ("C23", "unified_planning/model/mixins/fluents_set.py",
     "            _check_default_value(fluent.type, v_exp, f\"fluent {fluent.name}\")\n        self._fluents.append(fluent)\n",
     "        self._fluents.append(fluent)\n        if v_exp is not None:\n            _check_default_value(fluent.type, v_exp, f\"fluent {fluent.name}\")\n", "add_fluent"),
    ("C23", "unified_planning/model/transition.py",
     "        if not fluent_exp.type.is_compatible(value_exp.type):\n            # Value is not assignable to fluent (its type is not a subset of the fluent's type).",
     "        if False:\n            # Value is not assignable to fluent (its type is not a subset of the fluent's type).", "UntimedEffectMixin.add_effect"),
    ("C23", "unified_planning/plans/plan.py",
     "            if not assigned_value.is_constant():", "            if False:", "ActionInstance.__init__"),
    ("C10", "unified_planning/model/problem.py",
     "        if e.is_forall():\n            self.kind.set_effects_kind(\"FORALL_EFFECTS\")",
     "        elif e.is_forall():\n            self.kind.set_effects_kind(\"FORALL_EFFECTS\")", "update_problem_kind_effect"),
    ("C10", "unified_planning/model/problem.py",
     "        if OperatorKind.OR in ops or OperatorKind.IMPLIES in ops:", "        if OperatorKind.OR in ops:", "update_problem_kind_expression"),
    ("C10", "unified_planning/model/problem.py",
     "                self.kind.set_parameters(\"UNBOUNDED_INT_ACTION_PARAMETERS\")\n            else:\n                self.kind.set_parameters(\"BOUNDED_INT_ACTION_PARAMETERS\")",
     "                self.kind.set_parameters(\"BOUNDED_INT_ACTION_PARAMETERS\")\n            else:\n                self.kind.set_parameters(\"BOUNDED_INT_ACTION_PARAMETERS\")", "update_action_parameter"),
    ("C36", "unified_planning/model/state.py",
     "            current_instance = current_instance._father\n\n        default_found",
     "            current_instance = None\n\n        default_found", "get_value"),
    ("C38", "unified_planning/io/pddl_writer.py",
     "        self.nto_renamings[new_name] = item\n        return new_name", "        return new_name", "_get_mangled_name"),
    ("C38", "unified_planning/io/pddl_writer.py",
     "            while self.problem.has_name(new_name) or new_name in self.nto_renamings:",
     "            while self.problem.has_name(new_name):", "_get_mangled_name"),
    ("C22", "unified_planning/model/mixins/fluents_set.py",
     "        other._fluents_defaults = self._fluents_defaults.copy()", "        other._fluents_defaults = self._fluents_defaults", "FluentsSetMixin._clone_to"),
    ("C28", "unified_planning/engines/compilers/timed_to_sequential.py",
     "    if candidate < upper or (candidate == upper and not right_open):", "    if candidate <= upper:", "_duration_in_interval"),
    ("C05", "unified_planning/engines/plan_validator.py",
     "            if x <= start and x > equal_time:", "            if x < start and x > equal_time:", "_states_in_interval"),
    ("C33", "unified_planning/model/problem_kind.py",
     "        return self_feat.issubset(oth_feat)", "        return self_feat.issubset(oth_feat) or len(self_feat) == 0 or len(oth_feat) > 3", "antisym"),
    ("C14", "unified_planning/model/walkers/dag.py",
     "            self.stack.clear()\n            if self.invalidate_memoization:\n                self.memoization.clear()\n            raise",
     "            if self.invalidate_memoization:\n                self.memoization.clear()\n            raise", "DagWalker.walk"),
    ("C32", "unified_planning/engines/factory.py",
     "            if optimality_guarantee is not None and not EngineClass.satisfies(\n                optimality_guarantee\n            ):\n                return False\n        elif operation_mode == OperationMode.PLAN_VALIDATOR:",
     "            pass\n        elif operation_mode == OperationMode.PLAN_VALIDATOR:", "_engine_satisfies_conditions"),
    ("C15", "unified_planning/model/walkers/type_checker.py",
     "                products = (lower * l, lower * u, upper * l, upper * u)\n                lower = min(products)\n                upper = max(products)",
     "                lower_old = lower\n                lower = min(lower * l, lower * u, upper * l, upper * u)\n                upper = max(lower * l, lower * u, upper * l, upper * u)", "walk_times"),
    ("C15", "unified_planning/model/walkers/type_checker.py",
     "                upper += x.upper_bound", "                upper += x.lower_bound", "walk_plus"),
    ("C15", "unified_planning/model/walkers/type_checker.py",
     "        lower = left_lower - right_upper", "        lower = left_lower - right_lower", "walk_minus"),
    ("C15", "unified_planning/model/walkers/type_checker.py",
     "        if lower == -float(\"inf\") or (\n            lower is not None and math.isnan(cast(float, lower))\n        ):\n            lower = None",
     "        if lower == -float(\"inf\"):\n            lower = None", "walk_times"),
    ("C15", "unified_planning/model/walkers/type_checker.py",
     "quotients.append(float(\"inf\") * sign * (1 if right_value > 0 else -1))", "quotients.append(float(\"inf\") * sign)", "walk_div"),
    ("C15", "unified_planning/model/walkers/type_checker.py",
     "            if x.lower_bound is None:\n                lower = -float(\"inf\")\n            elif lower is None:",
     "            if lower is None:\n                lower = x.lower_bound if x.lower_bound is not None else -float(\"inf\")\n            elif x.lower_bound is None:\n                pass\n            elif False:", "walk_plus"),
    ("C15", "unified_planning/model/walkers/type_checker.py",
     "            if family(x) != family(t):\n                return None", "            if family(x) != family(t) and not t.is_user_type():\n                return None", "symmetric"),
    ("C15", "unified_planning/model/walkers/type_checker.py",
     "            if x is None or x != BOOL:\n                return None", "            if x is None:\n                return None", "walk_bool_to_bool"),
    ("C15", "unified_planning/model/walkers/type_checker.py",
     "        return self.environment.type_manager.IntType(\n            expression.constant_value(), expression.constant_value()\n        )",
     "        return self.environment.type_manager.IntType(\n            expression.constant_value(), None\n        )", "walk_identity_int"),
    ("C17", "unified_planning/model/walkers/linear_checker.py",
     "        negative_fluents |= spf\n        positive_fluents |= snf", "        positive_fluents |= spf\n        negative_fluents |= snf", "walk_minus"),
    ("C17", "unified_planning/model/walkers/linear_checker.py",
     "            return (is_linear, negative_fluents, positive_fluents)\n        else:\n            fluents = positive_fluents | negative_fluents\n            return (is_linear, fluents, fluents)\n\n    def walk_minus",
     "            return (is_linear, positive_fluents, negative_fluents)\n        else:\n            fluents = positive_fluents | negative_fluents\n            return (is_linear, fluents, fluents)\n\n    def walk_minus", "walk_div"),
    ("C17", "unified_planning/model/walkers/linear_checker.py",
     "        return (is_linear, {expression}, set())", "        return (is_linear, set(), {expression})", "walk_fluent_exp"),
    ("C17", "unified_planning/model/walkers/linear_checker.py",
     "                else:  # Second argument that contains fluent_expressions\n                    is_linear = False",
     "                else:  # Second argument that contains fluent_expressions\n                    is_linear = is_linear and len(spf & snf) == 0", "walk_times"),
    ("C17", "unified_planning/model/walkers/linear_checker.py",
     "            and len(denominator_positive_fluents) == 0\n", "", "walk_div"),
    ("C13", "unified_planning/model/walkers/substituter.py",
     "            fun = self.functions[expression.node_type]\n            res = fun(expression, args=[res_expression], **kwargs)",
     "            if res_expression is expression.arg(0):\n                res = expression\n            else:\n                fun = self.functions[expression.node_type]\n                res = fun(expression, args=[res_expression], **kwargs)",
     "_push_with_children_to_stack"),
    ("C13", "unified_planning/model/walkers/substituter.py",
     "                if all(\n                    m not in expression.variables()", "                if any(\n                    m not in expression.variables()", "_push_with_children_to_stack"),
    ("C13", "unified_planning/model/walkers/substituter.py",
     "        res = subs.get(expression, None)\n        if res is not None:\n            return res",
     "        res = subs.get(expression, None)\n        if res is not None and len(args) == 0:\n            return res", "walk_replace_or_identity"),
    ("C13", "unified_planning/model/walkers/substituter.py",
     "            if new_k.type.is_compatible(new_v.type):\n                new_substitutions[new_k] = new_v",
     "            if new_k.type.is_compatible(new_v.type) or len(new_substitutions) > 0:\n                new_substitutions[new_k] = new_v", "Substituter.substitute"),
    ("C13", "unified_planning/model/walkers/identitydag.py",
     "        return self.manager.LE(args[0], args[1])", "        return self.manager.LE(args[1], args[0])", "walk_le"),
    ("C01", "unified_planning/engines/sequential_simulator.py",
     "                    elif not old_value.bool_constant_value():\n                        return fluent, new_value",
     "                    elif old_value.bool_constant_value():\n                        return fluent, new_value", "_evaluate_effect"),
    ("C01", "unified_planning/engines/sequential_simulator.py",
     "                f_eval = updated_values.get(fluent, evaluate(fluent))", "                f_eval = evaluate(fluent)", "_evaluate_effect"),
    ("C01", "unified_planning/engines/sequential_simulator.py",
     "                if fluent in assigned_fluent:\n                    raise UPConflictingEffectsException(\n                        f\"The fluent {fluent} is modified by an assignment and an increase/decrease in the same action.\"\n                    )\n",
     "", "_evaluate_effect"),
    ("C01", "unified_planning/engines/sequential_simulator.py",
     "            if effect.is_assignment():\n                old_value = updated_values.get(fluent, None)",
     "            if effect.is_assignment():\n                assigned_fluent.add(fluent)\n                old_value = updated_values.get(fluent, None)", "_evaluate_effect"),
    ("C01", "unified_planning/engines/sequential_simulator.py",
     "                    if not fluent.type.is_bool_type():\n                        raise UPConflictingEffectsException(\n                            f\"The fluent {fluent} is modified by 2 different assignments in the same action.\"\n                        )\n                    # solve with add-after-delete logic\n                    elif",
     "                    if False:\n                        pass\n                    elif", "rejections"),
    ("C03", "unified_planning/engines/plan_validator.py",
     "                next_state = simulator.apply_unsafe(trace[-1], ai)\n", "                next_state = simulator.apply_unsafe(trace[-1], ai)\n                trace.append(next_state)\n", "_validate"),
    ("C03", "unified_planning/engines/plan_validator.py",
     "            except UPConflictingEffectsException as e:\n                msg = f\"{str(i)}-th action instance {str(ai)} creates Conflicting Effects: {str(e)}\"\n", "", "_validate"),
    ("C03", "unified_planning/engines/plan_validator.py",
     "                        last_ai = plan.actions[-1] if plan.actions else None", "                        last_ai = plan.actions[-1]", "_validate"),
    ("C03", "unified_planning/engines/plan_validator.py",
     "            if not unsatisfied_goals:\n                metric_evaluations = None", "            if not unsatisfied_goals or len(plan.actions) == 0:\n                metric_evaluations = None", "_validate"),
    ("C03", "unified_planning/engines/sequential_simulator.py",
     "        return se.evaluate(action_cost, state).constant_value() + metric_value", "        return se.evaluate(action_cost, next_state).constant_value() + metric_value", "evaluate_quality_metric"),
    ("C03", "unified_planning/engines/sequential_simulator.py",
     "            if se.evaluate(goal, next_state).bool_constant_value():\n                total_gain += gain\n        return total_gain\n    else:\n        raise NotImplementedError(\n            f\"QualityMetric {quality_metric} not supported by the UPSequentialSimulator.\"\n        )\n\n\ndef evaluate_quality_metric_in_initial_state",
     "            if se.evaluate(goal, next_state).bool_constant_value():\n                total_gain = gain\n        return total_gain\n    else:\n        raise NotImplementedError(\n            f\"QualityMetric {quality_metric} not supported by the UPSequentialSimulator.\"\n        )\n\n\ndef evaluate_quality_metric_in_initial_state",
     "evaluate_quality_metric"),
    ("C02", "unified_planning/engines/sequential_simulator.py",
     "                state, action, parameters, early_termination=True, full_check=True\n", "                state, action, parameters, early_termination=True, full_check=False\n", "_is_applicable"),
    ("C02", "unified_planning/engines/sequential_simulator.py",
     "        except (UPInvalidActionError, UPStateMissingFluentError):\n            is_applicable = False", "        except UPInvalidActionError:\n            is_applicable = False", "_is_applicable"),
    ("C02", "unified_planning/engines/sequential_simulator.py",
     "            if reason is not None:\n                return None\n            return self.apply_unsafe(state, action, parameters)", "            return self.apply_unsafe(state, action, parameters)", "_apply"),
    ("C02", "unified_planning/engines/sequential_simulator.py",
     "            return len(self.get_unsatisfied_goals(state, early_termination=True)) == 0", "            return len(self.get_unsatisfied_goals(state, early_termination=True)) >= 0", "_is_goal"),
    ("C02", "unified_planning/engines/sequential_simulator.py",
     "            if self._is_applicable(state, original_action, params):\n                yield (original_action, params)", "            if self._is_applicable(state, original_action, params):\n                yield (original_action, params)\n                break", "_get_applicable_actions"),
    ("C08", "unified_planning/engines/results.py",
     "    def __post_init__(self):\n        # Check that compiled problem and map_back_action_instance", "    def _post_init(self):\n        # Check that compiled problem and map_back_action_instance", "CompilerResult"),
    ("C08", "unified_planning/engines/results.py",
     "        elif (\n            self.map_back_action_instance is None and self.plan_back_conversion is None\n        ):", "        elif (\n            self.map_back_action_instance is None and self.plan_back_conversion is None and self.problem is None\n        ):", "CompilerResult"),
    ("C08", "unified_planning/engines/compilers/utils.py",
     "    while problem.has_name(new_name):\n        new_name = f\"{base_name}_{str(count)}\"\n        count += 1\n    return new_name",
     "    if problem.has_name(new_name):\n        new_name = f\"{base_name}_{str(count)}\"\n        count += 1\n    return new_name", "get_fresh_name"),
    ("C08", "unified_planning/engines/compilers/utils.py",
     "    for p in action.parameters:\n        name_list.append(p.name)\n    count = 0", "    for p in action.parameters[1:]:\n        name_list.append(p.name)\n    count = 0", "get_fresh_parameter_name"),
    ("C36", "unified_planning/model/state.py",
     "                for k, v in current_instance._values.items():\n                    complete_values.setdefault(k, v)\n                current_instance = current_instance._father\n            return UPState(",
     "                for k, v in current_instance._values.items():\n                    complete_values[k] = v\n                current_instance = current_instance._father\n            return UPState(", "make_child"),
    ("C36", "unified_planning/model/state.py",
     "        return UPState(updated_values, self._fluent_set, self)", "        return UPState(updated_values, self._fluent_set, self._father)", "any positive"),
    ("C36", "unified_planning/model/state.py",
     "            if _father is not None or self._is_nondefault(fluent, value):", "            if self._is_nondefault(fluent, value):", "any positive"),
    ("C35", "unified_planning/model/contingent/execution_environment.py",
     "            default_value = problem.fluents_defaults.get(fluent, None)", "            default_value = problem.initial_defaults.get(fluent.type, None)", "_get_stateless"),
    ("C35", "unified_planning/model/contingent/execution_environment.py",
     "            if f not in problem.hidden_fluents:\n                deterministic_problem.set_initial_value(f, v)", "            deterministic_problem.set_initial_value(f, v)", "_get_stateless"),
    ("C35", "unified_planning/model/contingent/execution_environment.py",
     "                for effect in action.effects:\n                    dummy._add_effect_instance(effect.clone())", "                for effect in action.effects[:1]:\n                    dummy._add_effect_instance(effect.clone())", "_get_stateless"),
    ("C35", "unified_planning/model/contingent/execution_environment.py",
     "            if default_value is None and fluent.type.is_bool_type():\n                default_value = False", "            if default_value is None:\n                default_value = False", "_get_stateless"),
    ("C04", "unified_planning/engines/plan_validator.py",
     "                            if v.bool_constant_value():\n                                updates[f] = v\n                        elif (",
     "                            updates[f] = v\n                        elif (", "_apply_effects"),
    ("C04", "unified_planning/engines/plan_validator.py",
     "                            and updates[f].constant_value() == v.constant_value()\n", "", "_apply_effects"),
    ("C04", "unified_planning/engines/plan_validator.py",
     "                        else:\n                            raise UPConflictingEffectsException(\"Double effect\")\n                    else:\n                        updates[f] = v\n                        if eff.is_assignment():",
     "                        else:\n                            updates[f] = v\n                    else:\n                        updates[f] = v\n                        if eff.is_assignment():", "_apply_effects"),
    ("C20", "unified_planning/grpc/proto_reader.py",
     "        str_ub = s.split(\",\")[1].split(\"]\")[0].strip()", "        str_ub = s.split(\",\")[1].split(\"]\")[0]", "real types"),
    ("C20", "unified_planning/grpc/proto_reader.py",
     "        ub = None if \"inf\" in str_ub else int(str_ub)", "        ub = None if \"inf\" in str_ub else int(str_lb)", "int types"),
    ("C20", "unified_planning/grpc/proto_reader.py",
     "            lower_bound=None if str_lb == \"-inf\" else fractions.Fraction(str_lb),", "            lower_bound=None if str_lb == \"-inf\" else fractions.Fraction(str_ub),", "real types"),
    ("C20", "unified_planning/model/types.py",
     "            b.append(\"-inf\" if self.lower_bound is None else str(self.lower_bound))\n            b.append(\", \")\n            b.append(\"inf\" if self.upper_bound is None else str(self.upper_bound))\n            b.append(\"]\")\n        return \"real\" + \"\".join(b)",
     "            b.append(\"-inf\" if self.lower_bound is None else str(self.lower_bound))\n            b.append(\", \")\n            b.append(\"+inf\" if self.upper_bound is None else str(self.upper_bound))\n            b.append(\"]\")\n        return \"real\" + \"\".join(b)", "real types"),
    ("C05", "unified_planning/engines/plan_validator.py",
     "        if sorted_times[mid] < target_time:\n            result = sorted_times[mid]", "        if sorted_times[mid] <= target_time:\n            result = sorted_times[mid]", "binary_search"),
    ("C05", "unified_planning/engines/plan_validator.py",
     "            result = sorted_times[mid]\n            left = mid + 1\n        else:\n            right = mid - 1", "            result = sorted_times[mid]\n            left = mid + 1\n        else:\n            right = mid - 2", "binary_search"),
    ("C05", "unified_planning/engines/plan_validator.py",
     "            else action_start_time + action_duration\n        )\n        makespan = max(makespan, action_end)", "            else action_start_time + action_duration\n        )\n        makespan = max(makespan, action_start_time)", "_extract_makespan"),
    ("C05", "unified_planning/engines/plan_validator.py",
     "        if effect_timing.is_from_start():\n            makespan = max(makespan, effect_timing.delay)", "        makespan = max(makespan, effect_timing.delay)", "_extract_makespan"),
    ("C05", "unified_planning/engines/plan_validator.py",
     "        if goal_interval.upper.is_from_end():\n            interval_bound = goal_interval.lower", "        if goal_interval.upper.is_from_start():\n            interval_bound = goal_interval.lower", "_extract_makespan"),
    ("C06", "unified_planning/engines/compilers/utils.py",
     "            replaced_action,\n            action_instance.actual_parameters,", "            replaced_action,\n            tuple(),", "replace_action"),
    ("C06", "unified_planning/engines/compilers/utils.py",
     "    lifted_action, parameters = map[action_instance.action]\n    return ActionInstance(lifted_action, tuple(parameters))",
     "    lifted_action, parameters = map[action_instance.action]\n    return ActionInstance(action_instance.action, tuple(parameters))", "lift_action_instance"),
    ("C07", "unified_planning/engines/compilers/utils.py",
     "    if ps.is_bool_constant():\n        if not ps.bool_constant_value():\n            return (False, [])", "    if ps.is_bool_constant():\n        if ps.bool_constant_value():\n            return (False, [])", "check_and_simplify_preconditions"),
    ("C06", "unified_planning/engines/compilers/utils.py",
     "        if ps.is_and():\n            nap.extend(ps.args)", "        if ps.is_and():\n            nap.extend(ps.args[1:])", "check_and_simplify_preconditions"),
    ("C25", "unified_planning/model/delta_stn.py",
     "                return neighbor.bound <= b", "                return neighbor.bound >= b", "_is_subsumed"),
    ("C25", "unified_planning/model/delta_stn.py",
     "            self._constraints.copy(),\n            self._distances.copy(),", "            self._constraints.copy(),\n            self._distances,", "copy_stn"),
    ("C25", "unified_planning/model/delta_stn.py",
     "                neighbor = DeltaNeighbors(y, b, x_constraints)", "                neighbor = DeltaNeighbors(y, b, None)", "DeltaSimpleTemporalNetwork.add"),
    ("C25", "unified_planning/model/delta_stn.py",
     "        if self._is_sat:\n            self._distances.setdefault(x, cast(T, 0))", "        if True:\n            self._distances.setdefault(x, cast(T, 0))", "DeltaSimpleTemporalNetwork.add"),
    ("C11", "unified_planning/model/walkers/simplifier.py",
     "            return self.manager.Bool(not l)", "            return self.manager.Bool(l)", "walk_not"),
]


def run_units(prop, scratch, unit_sub=""):
    env = dict(os.environ, PYTHONPATH=scratch + os.pathsep + ROOT)
    code = (
        "import sys, json, importlib; sys.path.insert(0, %r)\n"
        "import unified_planning; assert unified_planning.__file__.startswith(%r), unified_planning.__file__\n"
        "from pyvc.verify import run_unit\n"
        "m = importlib.import_module('contracts.%s')\n"
        "out = []\n"
        "for u in m.UNITS:\n"
        "    if %r not in u.name: continue\n"
        "    r = run_unit(u)\n"
        "    bad = [o['label'] for o in r['obligations'] if o['verdict'] == 'failed']\n"
        "    if not bad and any(o['verdict'] != 'discharged' for o in r['obligations']): r['status'] = 'open-obligations'\n"
        "    out.append({'unit': r['unit'], 'status': r['status'], 'failed': bad[:3], 'error': r.get('error')})\n"
        "print('RESULT ' + json.dumps(out))\n"
    ) % (ROOT, scratch, prop.lower(), unit_sub)
    p = subprocess.run([os.path.join(ROOT, ".venv/bin/python"), "-c", code], env=env, capture_output=True, text=True, timeout=1800, cwd=ROOT)
    for line in p.stdout.splitlines():
        if line.startswith("RESULT "):
            return json.loads(line[7:])
    return [{"unit": "?", "status": "crash", "failed": [], "error": (p.stderr or p.stdout)[-400:]}]


def _one_mutant(m):
    prop, rel, old, new, unit_sub = m
    scratch = tempfile.mkdtemp(prefix="verif_mut_")
    try:
        shutil.copytree(os.path.join(REPO, "unified_planning"), os.path.join(scratch, "unified_planning"),
                        ignore=shutil.ignore_patterns("test", "__pycache__"))
        path = os.path.join(scratch, rel)
        src = open(path).read()
        if old not in src:
            return (prop, unit_sub, "ANCHOR-NOT-FOUND"), False
        open(path, "w").write(src.replace(old, new, 1))
        res = run_units(prop, scratch, unit_sub)
        hit = [r for r in res if unit_sub in r["unit"] and (r["failed"] or r["status"] not in ("ok",))]
        killed = any(r["failed"] for r in hit)
        undecided = [r for r in hit if not r["failed"]]
        verdict = "KILLED" if killed else ("UNDECIDED(" + (undecided[0]["error"] or undecided[0]["status"])[:60] + ")" if undecided else "SURVIVED")
        return (prop, unit_sub, verdict + (": " + [r for r in hit if r["failed"]][0]["failed"][0][:70] if killed else "")), killed
    finally:
        shutil.rmtree(scratch, ignore_errors=True)


def mutants(only=None):
    from concurrent.futures import ThreadPoolExecutor
    todo = [m for m in MUTANTS if m[2] is not None and not (only and m[0] not in only)]
    with ThreadPoolExecutor(max_workers=int(os.environ.get("SELFTEST_JOBS", "6"))) as ex:
        results = list(ex.map(_one_mutant, todo))
    for row, _ in results:
        print("mutant %-4s %-34s %s" % row)
    return all(k for _, k in results)


# ----------------------------------------------------------------------------------------------------- engine differential
ENGINE_SRC = '''
def f_arith(a, b):
    x = a * 3 - b
    if x > 4 and not (b == 2):
        x += b // 2 if b != 0 else 7
    elif x == 4 or a < 0:
        x = -x
    return x % 5 if x >= 0 else x


def f_list(n, k):
    out = []
    for i in range(n):
        if i == k:
            continue
        if i > 6:
            break
        out.append(i * i)
    else:
        out.append(-1)
    return out[1:] + out[:2]


def f_dict(keys, k):
    d = {}
    for i, x in enumerate(keys):
        d.setdefault(x, []).append(i)
    r = d.get(k, None)
    if r is None:
        return list(d.keys())[:3]
    return len(r), k in d, [y for y in d if y != k]


def f_exc(a, b):
    try:
        if a == 0:
            raise ValueError("zero")
        r = [1, 2, 3][a]
    except IndexError:
        r = -1
    finally:
        b = b + 1
    return r, b


def f_set(xs, ys):
    s = set(xs)
    t = {y for y in ys if y % 2 == 0}
    n = 0
    for x in s:
        if x in t:
            n += 1
    return len(s), len(t), n, (3 in s) != (3 in t)


def f_ext(a, b, c):
    import math
    lo = -float("inf") if a < 0 else a
    hi = float("inf") if b > 3 else b
    prods = (lo * c, lo * hi, hi * c, c * b)
    m, M = min(prods), max(prods)
    s = lo + hi
    d = lo - hi
    flags = (m == -float("inf"), M == float("inf"), math.isnan(m), math.isnan(M), math.isnan(s), math.isnan(d), lo < hi, m <= M, s == d)
    fin = 0
    if not math.isnan(m) and m != -float("inf") and m != float("inf"):
        fin = m
    return flags, fin


def f_ext2(a, b):
    import math
    x = float("inf") if a > 1 else a
    y = -float("inf") if b < -1 else b
    t = (y * x, x * 0, y * a, x + y, b * a)
    r = max(t)
    q = min(t)
    return (math.isnan(r), math.isnan(q), r == float("inf"), q == -float("inf"), isinstance(r, int), isinstance(q, float), x > y, x >= y, x != y)


def f_seg(a, b):
    from fractions import Fraction
    s = f"up:integer[{a}, {b}]"
    lb = s.split("[")[1].split(",")[0]
    ub = s.split(",")[1].split("]")[0]
    q = Fraction(a, 7)
    t = "real[" + str(q) + ", inf]"
    lo = t.split("[")[1].split(",")[0].strip()
    hi = t.split(",")[1].split("]")[0].strip()
    return ("-inf" in lb, int(lb), int(ub), "up:integer[" in s, s == "up:integer", Fraction(lo) == q, hi == "inf", s.startswith("up:"), "".join(["x", str(b), "y"]) == "xy")


def f_while(n):
    i, acc = 0, 0
    while i < n:
        i += 1
        if i % 3 == 0:
            continue
        acc += i
        if acc > 20:
            break
    return i, acc


def f_tuple(p, q):
    a, (b, c) = p, q
    a, b = b, a
    return (a, b, c), max(a, b, c), min([a, b, c]), sum([a, b, c]), abs(a - b), all([a > 0, b > 0]), any([a == 0, c == 0])


def f_str(s, n):
    t = s + str(n)
    if t.startswith("a") and len(t) > 2:
        return t.upper()
    return f"{t}-{n}"


def f_nested(m):
    out = {}
    for i in range(m):
        for j in range(i):
            if (i + j) % 2:
                out[(i, j)] = i * j
    return [out[key] for key in out], len(out)


def f_sym1(a, b, c):
    m = max(a, b)
    if a < b <= c:
        m = m - min(b, c)
    elif not (a != c) or (b > 0 and c < 0):
        m = abs(m) + 1
    else:
        m = -m
    ok = (m > 0) == (a > b)
    return m, ok, m // 2, (m % 3) if m != 0 else 9


def f_sym2(a, b):
    r = 0
    for i in range(3):
        if a > i:
            r += b
        else:
            r -= 1
    try:
        q = r // (a - 2)
    except ZeroDivisionError:
        q = -100
    return r, q


def f_none(a):
    r = None
    if a > 2:
        r = a
    return (r is None), (r if r is not None else -1)
'''


def engine():
    sys.path.insert(0, ROOT)
    ns = {}
    exec(compile(ENGINE_SRC, "<selftest>", "exec"), ns)
    import types
    mod = types.ModuleType("verif_selftest_src")
    mod.__dict__.update(ns)
    sys.modules["verif_selftest_src"] = mod
    # the engine reads sources through inspect: write the module to a temp file and import it
    d = tempfile.mkdtemp(prefix="verif_eng_")
    try:
        open(os.path.join(d, "verif_selftest_src.py"), "w").write(ENGINE_SRC)
        sys.path.insert(0, d)
        del sys.modules["verif_selftest_src"]
        import importlib
        mod = importlib.import_module("verif_selftest_src")
        from pyvc.engine import Engine
        from pyvc.state import State
        from pyvc.values import CList, ExcVal
        rng = random.Random(7)
        cases = {
            "f_arith": lambda: (rng.randint(-4, 6), rng.randint(-3, 5)),
            "f_list": lambda: (rng.randint(0, 9), rng.randint(0, 5)),
            "f_dict": lambda: ([rng.randint(0, 3) for _ in range(rng.randint(0, 6))], rng.randint(0, 4)),
            "f_exc": lambda: (rng.randint(0, 4), rng.randint(0, 3)),
            "f_set": lambda: ([rng.randint(0, 5) for _ in range(rng.randint(0, 5))], [rng.randint(0, 6) for _ in range(rng.randint(0, 5))]),
            "f_while": lambda: (rng.randint(0, 12),),
            "f_tuple": lambda: (rng.randint(-3, 3), (rng.randint(-3, 3), rng.randint(-3, 3))),
            "f_str": lambda: (rng.choice(["a", "ab", "b", ""]), rng.randint(0, 30)),
            "f_nested": lambda: (rng.randint(0, 5),),
            "f_none": lambda: (rng.randint(0, 5),),
            "f_sym1": lambda: (rng.randint(-3, 3), rng.randint(-3, 3), rng.randint(-3, 3)),
            "f_sym2": lambda: (rng.randint(-1, 4), rng.randint(-3, 3)),
            "f_ext": lambda: (rng.randint(-2, 3), rng.randint(0, 6), rng.randint(-2, 2)),
            "f_ext2": lambda: (rng.randint(-2, 3), rng.randint(-3, 2)),
            "f_seg": lambda: (rng.randint(-30, 30), rng.randint(-10 ** 12, 10 ** 12)),
        }
        bad = total = unsupported = abstracted = 0
        for name, gen in cases.items():
            fn = getattr(mod, name)
            for _ in range(40):
                args = gen()
                try:
                    want = ("return", fn(*_copy(args)))
                except Exception as ex:  # noqa
                    want = ("raise", type(ex).__name__)
                eng = Engine()
                eng.noinline = set()
                eng.exact_strings = True
                st = State()
                try:
                    outs = list(eng.run(fn, st, [_lift(st, a) for a in _copy(args)], {}))
                except Exception as ex:  # noqa
                    unsupported += 1
                    print(f"engine {name}{args}: engine raised {type(ex).__name__}: {str(ex)[:100]}")
                    continue
                total += 1
                if len(outs) != 1:
                    bad += 1
                    print(f"engine {name}{args}: {len(outs)} terminal paths on concrete input")
                    continue
                s, out = outs[0]
                got = ("raise", out[1].cls.__name__) if out[0] == "raise" else ("return", _lower(s, out[1]))
                if _abstracted(got[1]):
                    abstracted += 1        # the engine returned a fresh symbolic value (sound over-approximation, e.g. f-strings)
                    continue
                if got != want:
                    bad += 1
                    print(f"engine {name}{args}: engine {got} vs CPython {want}")
        # ---- symbolic differential: run once on symbolic integers, then for sampled concrete inputs exactly one terminal
        #      path must be consistent with the input and its symbolic result must evaluate to CPython's result
        import z3
        from pyvc.values import Int as PInt
        sym_cases = {"f_arith": 2, "f_sym1": 3, "f_sym2": 2, "f_exc": 2, "f_none": 1, "f_ext": 3, "f_ext2": 2, "f_seg": 2}
        sbad = stotal = 0
        for name, arity in sym_cases.items():
            fn = getattr(mod, name)
            eng = Engine()
            eng.exact_strings = True
            st = State()
            args = [PInt.fresh(f"a{i}") for i in range(arity)]
            try:
                outs = list(eng.run(fn, st, list(args), {}))
            except Exception as ex:  # noqa
                print(f"engine(symbolic) {name}: engine raised {type(ex).__name__}: {str(ex)[:100]}")
                unsupported += 1
                continue
            for _ in range(60):
                vals = [rng.randint(-5, 7) for _ in range(arity)]
                try:
                    want = ("return", fn(*vals))
                except Exception as ex:  # noqa
                    want = ("raise", type(ex).__name__)
                hits = []
                for s_, out in outs:
                    sol = z3.Solver()
                    for c in s_.pc:
                        sol.add(c)
                    for a_, v_ in zip(args, vals):
                        sol.add(a_.z == v_)
                    if sol.check() == z3.sat:
                        m = sol.model()
                        if out[0] == "raise":
                            hits.append(("raise", out[1].cls.__name__))
                        else:
                            hits.append(("return", _lower_model(s_, out[1], m)))
                stotal += 1
                if len(hits) != 1 or hits[0] != want:
                    sbad += 1
                    print(f"engine(symbolic) {name}{vals}: paths consistent with the input give {hits}, CPython {want}")
        print(f"engine symbolic differential: {stotal} samples, {sbad} disagreements")
        bad += sbad
        total += stotal
        print(f"engine differential: {total} runs, {bad} disagreements, {abstracted} abstracted results, {unsupported} outside the subset")
        return bad == 0 and total > 0
    finally:
        shutil.rmtree(d, ignore_errors=True)


def _lower_model(st, v, m):
    import z3
    from pyvc.values import Loc, CList
    if isinstance(v, Loc):
        v = st.load(v)
    if isinstance(v, CList):
        return [_lower_model(st, x, m) for x in v.items]
    if isinstance(v, tuple):
        return tuple(_lower_model(st, x, m) for x in v)
    from pyvc.extnum import SExt
    if isinstance(v, SExt):
        k = m.eval(v.k, model_completion=True).as_long()
        if k == 2:
            return float("-inf")
        if k == 3:
            return float("inf")
        if k == 4:
            return "nan"
        val = m.eval(v.v, model_completion=True)
        from fractions import Fraction
        fr = Fraction(val.numerator_as_long(), val.denominator_as_long())
        return int(fr) if k == 0 else fr
    from pyvc.values import SUnion
    if isinstance(v, SUnion):
        for g, alt in v.alts:           # guarded alternatives: the one whose guard holds in the model
            if z3.is_true(m.eval(g, model_completion=True)):
                return _lower_model(st, alt, m)
        return ("symbolic", "no alternative of a union holds")
    if hasattr(v, "z"):
        z = m.eval(v.z, model_completion=True)
        if z3.is_true(z) or z3.is_false(z):
            return z3.is_true(z)
        if z3.is_int_value(z):
            return z.as_long()
        return ("symbolic", str(z))
    return v


def _abstracted(v):
    if isinstance(v, tuple) and len(v) == 2 and v[0] == "symbolic":
        return True
    if isinstance(v, (tuple, list)):
        return any(_abstracted(x) for x in v)
    return False


def _copy(a):
    import copy
    return copy.deepcopy(a)


def _lift(st, v):
    from pyvc.values import CList
    if isinstance(v, list):
        return st.alloc(CList([_lift(st, x) for x in v]), "list")
    if isinstance(v, tuple):
        return tuple(_lift(st, x) for x in v)
    return v


def _lower(st, v):
    from pyvc.values import CList, CDict, Loc
    try:
        from pyvc.builtins import CSet
    except Exception:  # noqa
        CSet = ()
    if isinstance(v, Loc):
        v = st.load(v)
    if isinstance(v, CList):
        return [_lower(st, x) for x in v.items]
    if isinstance(v, CDict):
        return {(_lower(st, k)): _lower(st, x) for k, x in v.items.items()}
    if CSet and isinstance(v, CSet):
        return set(_lower(st, x) for x in v.items)
    if isinstance(v, tuple):
        return tuple(_lower(st, x) for x in v)
    if isinstance(v, list):
        return [_lower(st, x) for x in v]
    if hasattr(v, "z"):
        import z3
        z = z3.simplify(v.z)
        if z3.is_true(z) or z3.is_false(z):
            return z3.is_true(z)
        if z3.is_int_value(z):
            return z.as_long()
        if z3.is_string_value(z):
            return z.as_string()
        return ("symbolic", str(z))
    return v


if __name__ == "__main__":
    what = sys.argv[1] if len(sys.argv) > 1 else "all"
    ok = True
    if what in ("mutants", "all"):
        ok = mutants(set(sys.argv[2:]) or None) and ok
    if what in ("engine", "all"):
        ok = engine() and ok
    sys.exit(0 if ok else 1)

"""Entry point of every registered check:  ./check <ID> [--tier quick|thorough] [--replay file]

Exit codes: 0 property held on everything explored (KNOWN-FINDING lines allowed),
            1 VIOLATION (line printed), 2 undecided (solver unknown / function left the
            verified subset / vacuity guard), 3 checker crash.
"""
from __future__ import annotations
import argparse
import importlib
import json
import multiprocessing as mp
import os
import re
import sys
import time
import traceback

ROOT = os.path.dirname(os.path.abspath(__file__))
sys.path.insert(0, ROOT)


def _run_unit_idx(arg):
    modname, idx = arg
    from pyvc.verify import run_unit
    mod = importlib.import_module(modname)
    return run_unit(mod.UNITS[idx])


def load_known():
    p = os.path.join(ROOT, "known_findings.json")
    if not os.path.exists(p):
        return {"open": [], "fixed": []}
    return json.load(open(p))


def match_known(known, prop, what):
    for k in known.get("open", []):
        if k["property"] == prop and re.search(k["match"], what):
            return k
    return None


def main(argv=None):
    ap = argparse.ArgumentParser()
    ap.add_argument("prop")
    ap.add_argument("--tier", default=os.environ.get("VERIF_TIER", "quick"))
    ap.add_argument("--replay")
    ap.add_argument("--jobs", type=int, default=int(os.environ.get("VERIF_JOBS", "16")))
    ap.add_argument("--verbose", "-v", action="store_true")
    a = ap.parse_args(argv)
    prop = a.prop.upper()
    tier = a.tier if a.tier in ("quick", "thorough") else "quick"
    seed = int(os.environ.get("VERIF_SEED", "0"))
    t0 = time.time()
    try:
        mod = importlib.import_module("contracts." + prop.lower())
    except Exception:
        traceback.print_exc()
        print(f"CHECKER-CRASH property={prop}: cannot import contract module")
        return 3
    if a.replay:
        data = json.load(open(a.replay))
        fn = getattr(mod, "replay_file", None)
        if fn is None or not data.get("concrete"):
            print(f"replay file {a.replay} carries no concrete input (obligation {data.get('obligation')}); "
                  f"re-run ./check {prop} to re-decide the obligation")
            return 2
        r = fn(data)
        print(json.dumps(r, indent=1, default=str))
        if r.get("reproduced"):
            print(f"VIOLATION property={prop} replay={a.replay}")
            return 1
        return 0

    known = load_known()
    units = getattr(mod, "UNITS", [])
    results = []
    if units:
        jobs = [(mod.__name__, i) for i in range(len(units))]
        if a.jobs > 1 and len(jobs) > 1:
            ctx = mp.get_context("fork")
            with ctx.Pool(min(a.jobs, len(jobs))) as pool:
                results = pool.map(_run_unit_idx, jobs, chunksize=1)
        else:
            results = [_run_unit_idx(j) for j in jobs]

    violations, known_hits, undecided, crashes = [], [], [], []
    skipped_open = {}
    seen_what, dup_paths = set(), {}
    n_obl = n_dis = 0
    solver_ms = 0
    by_solver = {}
    samples = []
    functions = {}
    inlined, assumed = set(), set()
    bounded_units = []
    rep_dir = os.path.join(os.environ.get("VERIF_EVIDENCE_DIR") or ROOT, "replays", prop)
    for r in results:
        functions.update(r.get("functions", {}))
        inlined.update(r.get("inlined", []))
        assumed.update(r.get("assumed", []))
        if r.get("bounded"):
            bounded_units.append(r["unit"])
        if r["status"] in ("unsupported", "vacuous"):
            undecided.append(f"{r['unit']}: {r['status']}: {r.get('error')}")
            continue
        if r["status"] == "crash":
            crashes.append(f"{r['unit']}: {r.get('error')}\n{r.get('traceback', '')}")
            continue
        if not r["obligations"]:
            undecided.append(f"{r['unit']}: zero obligations generated (vacuity guard)")
        for i, o in enumerate(r["obligations"]):
            n_obl += 1
            solver_ms += o["ms"]
            by_solver[o["solver"]] = by_solver.get(o["solver"], 0) + 1
            if len(samples) < 6 and i % 7 == 0:
                samples.append({"unit": r["unit"], "obligation": o["label"], "path": o["path"],
                                "verdict": o["verdict"], "solver": o["solver"], "ms": o["ms"]})
            if o["verdict"] == "discharged":
                n_dis += 1
            elif o["verdict"] == "unknown":
                if o.get("solver") == "skipped":
                    skipped_open[r["unit"]] = skipped_open.get(r["unit"], 0) + 1
                    continue
                undecided.append(f"{r['unit']}: {o['label']} [{o['path']}]: {o.get('reason')}")
            else:
                what = f"{r['unit']}::{o['label']}"
                k = match_known(known, prop, what)
                if k is not None:
                    if what not in seen_what:
                        known_hits.append((k, what))
                    seen_what.add(what)
                    continue
                if what in seen_what:      # one VIOLATION line per failed (unit, obligation); paths are in the evidence
                    dup_paths[what] = dup_paths.get(what, 0) + 1
                    continue
                seen_what.add(what)
                os.makedirs(rep_dir, exist_ok=True)
                rp = o.get("replay") or {}
                path = os.path.join(rep_dir, re.sub(r"[^A-Za-z0-9_.-]+", "_", what)[:150] + f"__{i}.json")
                json.dump({"property": prop, "unit": r["unit"], "obligation": o["label"], "path": o["path"],
                           "goal": o.get("goal"), "solver": o["solver"], "model": o.get("model"),
                           "reproduced": bool(rp.get("reproduced")), "concrete": rp.get("concrete"),
                           "observed": rp.get("observed"), "replay_error": o.get("replay_error"),
                           "solver_output": o.get("reason", "sat")}, open(path, "w"), indent=1, default=str)
                violations.append((what, path, bool(rp.get("reproduced"))))

    # ---- bounded stand-in layer (labelled bounded, never counted as proved)
    bounded = None
    bfn = getattr(mod, "bounded", None)
    if bfn is not None:
        try:
            from rtc.watchdog import limit, NonTerminating
            budget = int(os.environ.get("VERIF_BOUNDED_BUDGET_S", "1500" if tier == "quick" else "14400"))
            try:
                with limit(budget, f"the bounded layer of {prop}"):
                    bounded = bfn(tier, seed)
            except NonTerminating as e:
                # not a verdict: the layer did not finish (a guarded call inside it reports non-termination itself, as a failure)
                undecided.append(f"bounded layer: {e} did not finish within {budget} s")
                bounded = {"evaluations": 0, "failures": [], "rule": f"not finished within {budget} s"}
            for f in bounded.get("failures", []):
                what = f"bounded::{f['what']}"
                k = match_known(known, prop, what)
                if k is not None:
                    if k["match"] not in seen_what:
                        known_hits.append((k, what))
                    seen_what.add(k["match"])
                    continue
                if what in seen_what:
                    dup_paths[what] = dup_paths.get(what, 0) + 1
                    continue
                seen_what.add(what)
                os.makedirs(rep_dir, exist_ok=True)
                path = os.path.join(rep_dir, re.sub(r"[^A-Za-z0-9_.-]+", "_", what)[:150] + ".json")
                json.dump({"property": prop, "unit": "bounded", "obligation": f["what"], "reproduced": True,
                           "concrete": f.get("concrete"), "observed": f.get("observed")},
                          open(path, "w"), indent=1, default=str)
                violations.append((what, path, True))
        except Exception:
            crashes.append("bounded layer: " + traceback.format_exc()[-2500:])

    extra = getattr(mod, "extra_checks", None)
    extra_res = None
    if extra is not None:
        try:
            extra_res = extra(tier, seed)
            for f in extra_res.get("failures", []):
                what = f"census::{f['what']}"
                k = match_known(known, prop, what)
                if k is not None:
                    known_hits.append((k, what))
                    continue
                os.makedirs(rep_dir, exist_ok=True)
                path = os.path.join(rep_dir, re.sub(r"[^A-Za-z0-9_.-]+", "_", what)[:150] + ".json")
                json.dump({"property": prop, "unit": "census", "obligation": f["what"],
                           "reproduced": bool(f.get("reproduced")), "concrete": f.get("concrete"),
                           "observed": f.get("observed")}, open(path, "w"), indent=1, default=str)
                violations.append((what, path, bool(f.get("reproduced"))))
            n_obl += extra_res.get("obligations", 0)
            n_dis += extra_res.get("discharged", 0)
        except Exception:
            crashes.append("extra checks: " + traceback.format_exc()[-2500:])

    # ---- evidence
    level = getattr(mod, "LEVEL", "other")
    trusted = list(getattr(mod, "TRUSTED", []))
    try:
        from contracts import theory
        trusted_theory = list(theory.TRUSTED) if getattr(mod, "USES_THEORY", True) else []
    except Exception:
        trusted_theory = []
    trusted += trusted_theory
    trusted += [f"assumed callee contract: {x}" for x in sorted(assumed)]
    trusted += ["pyvc: encoding of the Python subset into z3 (DESIGN.md 2.2/2.3); termination not proved",
                "z3 5.1 / cvc5 as decision procedures"]
    wall = round(time.time() - t0, 3)
    cov = {
        "obligations": n_obl, "discharged": n_dis,
        "checker_cmd": f"./check {prop} --tier {tier}",
        "trusted_base": trusted,
        "explanation": getattr(mod, "EXPLANATION", mod.__doc__ or ""),
        "functions_under_contract": sorted(f"{r['unit']}" for r in results),
        "source_sha256_16": functions,
        "inlined_real_functions": sorted(inlined),
        "assumed_contracts": sorted(assumed),
        "units": [{"unit": r["unit"], "status": r["status"], "paths": r.get("paths"),
                   "outcomes": r.get("outcomes"), "obligations": len(r["obligations"]),
                   "discharged": sum(o["verdict"] == "discharged" for o in r["obligations"]),
                   "bounded_unrolling_used": r.get("bounded"), "wall_s": r.get("wall_s"), "doc": r.get("doc")}
                  for r in results],
        "backends": by_solver, "solver_ms": solver_ms,
        "units_with_bounded_unrolling": bounded_units,
        "samples": samples or [{"note": "no VC units for this property"}],
        "known_findings_hit": [w for _, w in known_hits],
        "undecided": undecided[:20],
    }
    if bounded is not None:
        cov["bounded"] = {k: v for k, v in bounded.items() if k != "failures"}
        cov["evaluations"] = bounded.get("evaluations", 0)
        cov["distinct_nontrivial"] = bounded.get("distinct_nontrivial", 0)
        cov["rule"] = bounded.get("rule", "")
        if bounded.get("samples"):
            cov["samples"] = cov["samples"] + bounded["samples"][:4]
        if "exhaustive" in bounded:
            cov["exhaustive"] = bounded["exhaustive"]
    if extra_res is not None:
        cov["census"] = {k: v for k, v in extra_res.items() if k != "failures"}
    ev = {"property_id": prop, "tier": tier, "seed": seed, "level": level, "coverage": cov,
          "assumptions": trusted, "wall_s": wall, "violations": len(violations)}
    ev_dir = os.environ.get("VERIF_EVIDENCE_DIR") or os.path.join(ROOT, "evidence")      # (override: scratch runs of tools/seed_try_copy.sh)
    os.makedirs(ev_dir, exist_ok=True)
    json.dump(ev, open(os.path.join(ev_dir, f"{prop}.json"), "w"), indent=1, default=str)

    # ---- report
    for k, what in known_hits:
        print(f"KNOWN-FINDING: property={prop} {k.get('what', what)}  [{what}]")
    for what, path, reproduced in violations:
        tail = "" if reproduced else " no-failing-input-found"
        print(f"# failed: {what}")
        print(f"VIOLATION property={prop} replay={path}{tail}")
    for u in undecided:
        print(f"UNDECIDED property={prop} {u}")
    for unit_name, cnt in skipped_open.items():
        print(f"UNDECIDED property={prop} {unit_name}: {cnt} further obligations not attempted (the unit already has open obligations)")
    for c in crashes:
        print(f"CHECKER-CRASH property={prop} {c}")
    print(f"{prop}: {n_dis}/{n_obl} obligations discharged, {len(results)} units, "
          f"{'bounded: %d evals, ' % bounded['evaluations'] if bounded else ''}{wall}s")
    if violations:
        return 1
    if crashes:
        return 3
    if undecided:
        return 2
    return 0


if __name__ == "__main__":
    sys.exit(main())
